// ---- abstract view of a position: what every property statement observes ----
// (slot 0 of `occupancy` is NOT part of the view: `unmake` leaves garbage there and no accessor reads it)
pub struct Side {
    pub pawns: u64, pub knights: u64, pub bishops: u64, pub rooks: u64, pub queens: u64, pub kings: u64,
    pub qs: bool, pub ks: bool,
}
pub struct Pos { pub w: Side, pub b: Side, pub turn: u32, pub ep: u32, pub full: u32, pub half: u32 }

pub open spec fn side_of(p: PlayerState) -> Side {
    Side { pawns: p.occupancy[1], knights: p.occupancy[2], bishops: p.occupancy[3], rooks: p.occupancy[4],
            queens: p.occupancy[5], kings: p.occupancy[6], qs: p.queen_side_castle, ks: p.king_side_castle }
}
pub open spec fn pos_of(b: Bitboard) -> Pos {
    Pos { w: side_of(b.white), b: side_of(b.black), turn: b.turn, ep: b.en_passant_square_shift,
           full: b.fullmove_clock, half: b.halfmove_clock }
}
pub open spec fn occ(p: Side, piece: u64) -> u64 {
    if piece == 1 { p.pawns } else if piece == 2 { p.knights } else if piece == 3 { p.bishops }
    else if piece == 4 { p.rooks } else if piece == 5 { p.queens } else if piece == 6 { p.kings } else { 0 }
}
pub open spec fn all_occ(p: Side) -> u64 { p.kings | p.queens | p.rooks | p.bishops | p.knights | p.pawns }
/// the kind of piece of this side standing on the square(s) `mask` (0 = none)
pub open spec fn piece_at(p: Side, mask: u64) -> u64 {
    if p.pawns & mask != 0 { 1 } else if p.knights & mask != 0 { 2 } else if p.bishops & mask != 0 { 3 }
    else if p.rooks & mask != 0 { 4 } else if p.queens & mask != 0 { 5 } else if p.kings & mask != 0 { 6 } else { 0 }
}
pub open spec fn side(v: Pos, c: u32) -> Side { if c == 0 { v.w } else { v.b } }
/// bit i of a bitboard
pub open spec fn bit_set(occ: u64, i: u32) -> bool { (occ >> i) & 1 == 1 }
