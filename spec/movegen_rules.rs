// ---- pseudo-legal moves by the rules, split by the responsibility of each generator function ----
pub open spec fn full_occ(v: Pos) -> u64 { all_occ(v.w) | all_occ(v.b) }
pub open spec fn own_at(v: Pos, d: u32) -> bool { bit_set(all_occ(side(v, v.turn)), d) }
/// precondition of every generator: well-formed, clocks in machine range, and the side NOT to move is not in check
/// (a legal position) — hence no pseudo-legal move captures a king
pub open spec fn gen_pre(v: Pos) -> bool { board_wf(v) && clocks_ok(v) && !in_check(v, (1 - v.turn) as u32) }

/// knight and (non-castling) king moves
pub open spec fn step_moves(v: Pos, piece: u64, s: u32, d: u32, p: u64) -> bool {
    s < 64 && d < 64 && p == 0 && bit_set(occ(side(v, v.turn), piece), s) && !own_at(v, d)
    && (if piece == 2 { knight_step(s, d) } else { king_step(s, d) })
}
/// sliding moves of one piece kind along rook lines or along bishop lines
pub open spec fn slide_moves(v: Pos, piece: u64, rook_like: bool, s: u32, d: u32, p: u64) -> bool {
    s < 64 && d < 64 && p == 0 && bit_set(occ(side(v, v.turn), piece), s) && !own_at(v, d)
    && (if rook_like { rook_reach(s, d, full_occ(v)) } else { bishop_reach(s, d, full_occ(v)) })
}

pub open spec fn last_row(turn: u32, d: u32) -> bool { row_of(d) == (if turn == 0 { 0u32 } else { 7u32 }) }
/// promotion piece matches the target square: one of N,B,R,Q exactly on the last rank, none elsewhere
pub open spec fn promo_matches(v: Pos, d: u32, p: u64) -> bool { if last_row(v.turn, d) { 2 <= p && p <= 5 } else { p == 0 } }
/// pawn captures, including en passant, with promotion when reaching the last rank
pub open spec fn pawn_capture_moves(v: Pos, s: u32, d: u32, p: u64) -> bool {
    s < 64 && d < 64 && bit_set(side(v, v.turn).pawns, s) && pawn_att(v.turn, s, d)
    && (bit_set(all_occ(side(v, (1 - v.turn) as u32)), d) || (v.ep != 0 && d == v.ep))
    && promo_matches(v, d, p)
}
/// pawn pushes: one step onto an empty square, two steps from the home rank over two empty squares; promotion on the last rank
pub open spec fn pawn_push_moves(v: Pos, s: u32, d: u32, p: u64) -> bool {
    let white = v.turn == 0;
    s < 64 && d < 64 && bit_set(side(v, v.turn).pawns, s) && promo_matches(v, d, p)
    && ((if white { s == d + 8 } else { d == s + 8 }) && !bit_set(full_occ(v), d)
        || ((if white { 48 <= s && s < 56 && s == d + 16 } else { 8 <= s && s < 16 && d == s + 16 })
            && !bit_set(full_occ(v), d) && !bit_set(full_occ(v), ((s + d) / 2) as u32)))
}

/// a target bit of the pawn-attack mask of `src`
pub open spec fn pawn_target_ok(v: Pos, src: u32, t: u32) -> bool {
    src < 64 && t < 64 && bit_set(side(v, v.turn).pawns, src) && pawn_att(v.turn, src, t) && !own_at(v, t)
    && (bit_set(all_occ(side(v, (1 - v.turn) as u32)), t) || (v.ep != 0 && t == v.ep))
}

/// castling by the rules: the right is still there, the squares between king and rook are empty, the king is not in
/// check and neither crosses nor lands on an attacked square
pub open spec fn castle_moves_rule(v: Pos, s: u32, d: u32, p: u64) -> bool {
    let me = side(v, v.turn);
    let op = side(v, (1 - v.turn) as u32);
    let oc = (1 - v.turn) as u32;
    let occ = full_occ(v);
    p == 0 && s == (if v.turn == 0 { E1 } else { E8 }) && d < 64
    && ((d + 2 == s && me.qs && !bit_set(occ, (s - 1) as u32) && !bit_set(occ, (s - 2) as u32) && !bit_set(occ, (s - 3) as u32)
            && !sq_attacked(op, oc, occ, s) && !sq_attacked(op, oc, occ, (s - 1) as u32) && !sq_attacked(op, oc, occ, (s - 2) as u32))
        || (d == s + 2 && me.ks && !bit_set(occ, (s + 1) as u32) && !bit_set(occ, (s + 2) as u32)
            && !sq_attacked(op, oc, occ, s) && !sq_attacked(op, oc, occ, (s + 1) as u32) && !sq_attacked(op, oc, occ, (s + 2) as u32)))
}

/// the nine kinds of pseudo-legal moves (index = order in which the generator emits them); `nq` = captures and promotions only
pub open spec fn gen_part(v: Pos, k: int, nq: bool, s: u32, d: u32, p: u64) -> bool {
    if k == 0 { slide_moves(v, 5, true, s, d, p) && (!nq || is_capture_at(v, d)) }          // queen along ranks and files
    else if k == 1 { slide_moves(v, 5, false, s, d, p) && (!nq || is_capture_at(v, d)) }    // queen along diagonals
    else if k == 2 { slide_moves(v, 3, false, s, d, p) && (!nq || is_capture_at(v, d)) }    // bishop
    else if k == 3 { slide_moves(v, 4, true, s, d, p) && (!nq || is_capture_at(v, d)) }     // rook
    else if k == 4 { step_moves(v, 2, s, d, p) && (!nq || is_capture_at(v, d)) }            // knight
    else if k == 5 { step_moves(v, 6, s, d, p) && (!nq || is_capture_at(v, d)) }            // king step
    else if k == 6 { pawn_capture_moves(v, s, d, p) }                                       // pawn captures, e.p., capturing promotions
    else if k == 7 { pawn_push_moves(v, s, d, p) && (!nq || p != 0) }                       // pawn pushes, pushing promotions
    else if k == 8 { castle_moves_rule(v, s, d, p) && !nq }                                 // castling
    else { false }
}
pub open spec fn gen_upto(v: Pos, k: int, nq: bool, s: u32, d: u32, p: u64) -> bool {
    (k >= 0 && gen_part(v, 0, nq, s, d, p)) || (k >= 1 && gen_part(v, 1, nq, s, d, p)) || (k >= 2 && gen_part(v, 2, nq, s, d, p))
    || (k >= 3 && gen_part(v, 3, nq, s, d, p)) || (k >= 4 && gen_part(v, 4, nq, s, d, p)) || (k >= 5 && gen_part(v, 5, nq, s, d, p))
    || (k >= 6 && gen_part(v, 6, nq, s, d, p)) || (k >= 7 && gen_part(v, 7, nq, s, d, p)) || (k >= 8 && gen_part(v, 8, nq, s, d, p))
}
/// THE RULES: (s, d, p) is a pseudo-legal move of v — a move of a piece of the side to move that obeys the piece's
/// movement rules, ignoring only whether it leaves the own king attacked
pub open spec fn pseudo_legal(v: Pos, s: u32, d: u32, p: u64) -> bool { gen_upto(v, 8, false, s, d, p) }
/// the move captures something (en passant included)
pub open spec fn captures_something(v: Pos, s: u32, d: u32) -> bool {
    is_capture_at(v, d) || is_ep_rule(v, piece_at(side(v, v.turn), sqm(s)), s, d)
}

// responsibilities as named closure-valued spec functions (equal arguments => equal closures)
pub open spec fn resp_slide(v: Pos, piece: u64, rook_like: bool, nq: bool) -> spec_fn(u32, u32, u64) -> bool {
    |s: u32, d: u32, p: u64| slide_moves(v, piece, rook_like, s, d, p) && (!nq || is_capture_at(v, d))
}
pub open spec fn resp_step(v: Pos, piece: u64, nq: bool) -> spec_fn(u32, u32, u64) -> bool {
    |s: u32, d: u32, p: u64| step_moves(v, piece, s, d, p) && (!nq || is_capture_at(v, d))
}
pub open spec fn resp_pawn_capture(v: Pos) -> spec_fn(u32, u32, u64) -> bool { |s: u32, d: u32, p: u64| pawn_capture_moves(v, s, d, p) }
pub open spec fn resp_pawn_push(v: Pos, nq: bool) -> spec_fn(u32, u32, u64) -> bool { |s: u32, d: u32, p: u64| pawn_push_moves(v, s, d, p) && (!nq || p != 0) }
pub open spec fn resp_castle(v: Pos) -> spec_fn(u32, u32, u64) -> bool { |s: u32, d: u32, p: u64| castle_moves_rule(v, s, d, p) }
pub open spec fn resp_pseudo_legal(v: Pos) -> spec_fn(u32, u32, u64) -> bool { |s: u32, d: u32, p: u64| pseudo_legal(v, s, d, p) }
pub open spec fn resp_non_quiet(v: Pos) -> spec_fn(u32, u32, u64) -> bool {
    |s: u32, d: u32, p: u64| pseudo_legal(v, s, d, p) && (captures_something(v, s, d) || p != 0)
}
