// ---- pseudo-legal moves by the rules, split by the responsibility of each generator function ----
pub open spec fn full_occ(v: Pos) -> u64 { all_occ(v.w) | all_occ(v.b) }
pub open spec fn own_at(v: Pos, d: u32) -> bool { bit_set(all_occ(side(v, v.turn)), d) }
/// precondition of every generator: well-formed, clocks in machine range, and the side NOT to move is not in check
/// (a legal position) — hence no pseudo-legal move captures a king
pub open spec fn gen_pre(v: Pos) -> bool { board_wf(v) && clocks_ok(v) && !in_check(v, (1 - v.turn) as u32) }

/// knight and (non-castling) king moves
pub open spec fn step_moves(v: Pos, piece: u64, s: u32, d: u32, p: u64) -> bool {
    s < 64 && d < 64 && p == 0 && bit_set(occ(side(v, v.turn), piece), s) && !own_at(v, d)
    && (if piece == 2 { knight_step(s, d) } else { king_step(s, d) })
}
/// sliding moves of one piece kind along rook lines or along bishop lines
pub open spec fn slide_moves(v: Pos, piece: u64, rook_like: bool, s: u32, d: u32, p: u64) -> bool {
    s < 64 && d < 64 && p == 0 && bit_set(occ(side(v, v.turn), piece), s) && !own_at(v, d)
    && (if rook_like { rook_reach(s, d, full_occ(v)) } else { bishop_reach(s, d, full_occ(v)) })
}

pub open spec fn last_row(turn: u32, d: u32) -> bool { row_of(d) == (if turn == 0 { 0u32 } else { 7u32 }) }
/// promotion piece matches the target square: one of N,B,R,Q exactly on the last rank, none elsewhere
pub open spec fn promo_matches(v: Pos, d: u32, p: u64) -> bool { if last_row(v.turn, d) { 2 <= p && p <= 5 } else { p == 0 } }
/// pawn captures, including en passant, with promotion when reaching the last rank
pub open spec fn pawn_capture_moves(v: Pos, s: u32, d: u32, p: u64) -> bool {
    s < 64 && d < 64 && bit_set(side(v, v.turn).pawns, s) && pawn_att(v.turn, s, d)
    && (bit_set(all_occ(side(v, (1 - v.turn) as u32)), d) || (v.ep != 0 && d == v.ep))
    && promo_matches(v, d, p)
}
/// pawn pushes: one step onto an empty square, two steps from the home rank over two empty squares; promotion on the last rank
pub open spec fn pawn_push_moves(v: Pos, s: u32, d: u32, p: u64) -> bool {
    let white = v.turn == 0;
    s < 64 && d < 64 && bit_set(side(v, v.turn).pawns, s) && promo_matches(v, d, p)
    && ((if white { s == d + 8 } else { d == s + 8 }) && !bit_set(full_occ(v), d)
        || ((if white { 48 <= s && s < 56 && s == d + 16 } else { 8 <= s && s < 16 && d == s + 16 })
            && !bit_set(full_occ(v), d) && !bit_set(full_occ(v), ((s + d) / 2) as u32)))
}

/// a target bit of the pawn-attack mask of `src`
pub open spec fn pawn_target_ok(v: Pos, src: u32, t: u32) -> bool {
    src < 64 && t < 64 && bit_set(side(v, v.turn).pawns, src) && pawn_att(v.turn, src, t) && !own_at(v, t)
    && (bit_set(all_occ(side(v, (1 - v.turn) as u32)), t) || (v.ep != 0 && t == v.ep))
}

/// castling by the rules: the right is still there, the squares between king and rook are empty, the king is not in
/// check and neither crosses nor lands on an attacked square
pub open spec fn castle_moves_rule(v: Pos, s: u32, d: u32, p: u64) -> bool {
    let me = side(v, v.turn);
    let op = side(v, (1 - v.turn) as u32);
    let oc = (1 - v.turn) as u32;
    let occ = full_occ(v);
    p == 0 && s == (if v.turn == 0 { E1 } else { E8 }) && d < 64
    && ((d + 2 == s && me.qs && !bit_set(occ, (s - 1) as u32) && !bit_set(occ, (s - 2) as u32) && !bit_set(occ, (s - 3) as u32)
            && !sq_attacked(op, oc, occ, s) && !sq_attacked(op, oc, occ, (s - 1) as u32) && !sq_attacked(op, oc, occ, (s - 2) as u32))
        || (d == s + 2 && me.ks && !bit_set(occ, (s + 1) as u32) && !bit_set(occ, (s + 2) as u32)
            && !sq_attacked(op, oc, occ, s) && !sq_attacked(op, oc, occ, (s + 1) as u32) && !sq_attacked(op, oc, occ, (s + 2) as u32)))
}
