// ---- pseudo-legal moves by the rules, split by the responsibility of each generator function ----
pub open spec fn full_occ(v: Pos) -> u64 { all_occ(v.w) | all_occ(v.b) }
pub open spec fn own_at(v: Pos, d: u32) -> bool { bit_set(all_occ(side(v, v.turn)), d) }
/// precondition of every generator: well-formed, clocks in machine range, and the side NOT to move is not in check
/// (a legal position) — hence no pseudo-legal move captures a king
pub open spec fn gen_pre(v: Pos) -> bool { board_wf(v) && clocks_ok(v) && !in_check(v, (1 - v.turn) as u32) }

/// knight and (non-castling) king moves
pub open spec fn step_moves(v: Pos, piece: u64, s: u32, d: u32, p: u64) -> bool {
    s < 64 && d < 64 && p == 0 && bit_set(occ(side(v, v.turn), piece), s) && !own_at(v, d)
    && (if piece == 2 { knight_step(s, d) } else { king_step(s, d) })
}
/// sliding moves of one piece kind along rook lines or along bishop lines
pub open spec fn slide_moves(v: Pos, piece: u64, rook_like: bool, s: u32, d: u32, p: u64) -> bool {
    s < 64 && d < 64 && p == 0 && bit_set(occ(side(v, v.turn), piece), s) && !own_at(v, d)
    && (if rook_like { rook_reach(s, d, full_occ(v)) } else { bishop_reach(s, d, full_occ(v)) })
}
