// ---- attack-table lookups: ASSUMED contracts, discharged on the real tables by check C04 (Kani set `tables`, 132
//      complete harnesses against the ray/step oracle of kani/tables.rs).  The call sites in the real code
//      (`ROOK_MAGICS.get_attacks(sq, occ)`, `unsafe { KING_NONMAGICS.get_attacks(sq) }`, ...) are routed to these
//      functions by recorded rewrites; `square < 64` is what the unchecked outer index needs. ----
#[verifier::external_body]
pub fn rook_lookup(square: u32, occupancy: u64) -> (r: u64)
    requires square < 64
    ensures forall|t: u32| t < 64 ==> (#[trigger] bit_set(r, t) <==> rook_reach(square, t, occupancy))
{ unimplemented!() }
#[verifier::external_body]
pub fn bishop_lookup(square: u32, occupancy: u64) -> (r: u64)
    requires square < 64
    ensures forall|t: u32| t < 64 ==> (#[trigger] bit_set(r, t) <==> bishop_reach(square, t, occupancy))
{ unimplemented!() }
#[verifier::external_body]
pub fn knight_lookup(square: u32) -> (r: u64)
    requires square < 64
    ensures forall|t: u32| t < 64 ==> (#[trigger] bit_set(r, t) <==> knight_step(square, t))
{ unimplemented!() }
#[verifier::external_body]
pub fn king_lookup(square: u32) -> (r: u64)
    requires square < 64
    ensures forall|t: u32| t < 64 ==> (#[trigger] bit_set(r, t) <==> king_step(square, t))
{ unimplemented!() }
#[verifier::external_body]
pub fn white_pawn_lookup(square: u32) -> (r: u64)
    requires square < 64
    ensures forall|t: u32| t < 64 ==> (#[trigger] bit_set(r, t) <==> pawn_att(0, square, t))
{ unimplemented!() }
#[verifier::external_body]
pub fn black_pawn_lookup(square: u32) -> (r: u64)
    requires square < 64
    ensures forall|t: u32| t < 64 ==> (#[trigger] bit_set(r, t) <==> pawn_att(1, square, t))
{ unimplemented!() }
