// ---- attack tables as values: ASSUMED contracts, discharged on the real tables by check C04 (Kani set `tables`).
//      `&ROOK_MAGICS` / `&KNIGHT_NONMAGICS` arguments and `X.get_attacks(..)` calls are routed here by recorded rewrites. ----
pub uninterp spec fn is_rook_table(m: &Magics) -> bool;
pub uninterp spec fn is_bishop_table(m: &Magics) -> bool;
pub open spec fn is_knight_table(t: &Nonmagics) -> bool { forall|s: u32, d: u32| s < 64 && d < 64 ==> (bit_set(#[trigger] t[s as int], d) <==> #[trigger] knight_step(s, d)) }
pub open spec fn is_king_table(t: &Nonmagics) -> bool { forall|s: u32, d: u32| s < 64 && d < 64 ==> (bit_set(#[trigger] t[s as int], d) <==> #[trigger] king_step(s, d)) }
pub open spec fn is_pawn_table(t: &Nonmagics, color: u32) -> bool { forall|s: u32, d: u32| s < 64 && d < 64 ==> (bit_set(#[trigger] t[s as int], d) <==> #[trigger] pawn_att(color, s, d)) }

#[verifier::external_body]
pub fn rook_magics() -> (r: &'static Magics) ensures is_rook_table(r), !is_bishop_table(r) { unimplemented!() }
#[verifier::external_body]
pub fn bishop_magics() -> (r: &'static Magics) ensures is_bishop_table(r), !is_rook_table(r) { unimplemented!() }
#[verifier::external_body]
pub fn knight_nonmagics() -> (r: &'static Nonmagics) ensures is_knight_table(r) { unimplemented!() }
#[verifier::external_body]
pub fn king_nonmagics() -> (r: &'static Nonmagics) ensures is_king_table(r) { unimplemented!() }
#[verifier::external_body]
pub fn white_pawn_nonmagics() -> (r: Nonmagics) ensures is_pawn_table(&r, 0) { unimplemented!() }
#[verifier::external_body]
pub fn black_pawn_nonmagics() -> (r: Nonmagics) ensures is_pawn_table(&r, 1) { unimplemented!() }

/// Magics::get_attacks: the magic-bitboard lookup (unchecked indexing inside; needs square < 64)
#[verifier::external_body]
pub fn magic_lookup(m: &Magics, square: u32, occupancy: u64) -> (r: u64)
    requires square < 64
    ensures
        is_rook_table(m) ==> forall|t: u32| t < 64 ==> (#[trigger] bit_set(r, t) <==> rook_reach(square, t, occupancy)),
        is_bishop_table(m) ==> forall|t: u32| t < 64 ==> (#[trigger] bit_set(r, t) <==> bishop_reach(square, t, occupancy)),
{ unimplemented!() }
/// Nonmagics::get_attacks: `*self.get_unchecked(square)`
#[verifier::external_body]
pub fn nonmagic_lookup(t: &Nonmagics, square: u32) -> (r: u64)
    requires square < 64
    ensures r == t[square as int]
{ unimplemented!() }
