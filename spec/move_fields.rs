// ---- Move: packed-field spec accessors (literal shifts are tied to the real *_SHIFT consts by the exec-const ensures in consts.inc) ----
pub open spec fn f_piece_moved(b: u64) -> u64 { (((b & PIECE_MOVED_MASK) >> 0u64)) }
pub open spec fn f_piece_attacked(b: u64) -> u64 { (((b & PIECE_ATTACKED_MASK) >> 3u64)) }
pub open spec fn f_self_lost_king_side_castle(b: u64) -> u64 { (((b & SELF_LOST_KING_SIDE_CASTLE_MASK) >> 6u64)) }
pub open spec fn f_self_lost_queen_side_castle(b: u64) -> u64 { (((b & SELF_LOST_QUEEN_SIDE_CASTLE_MASK) >> 7u64)) }
pub open spec fn f_opponent_lost_king_side_castle(b: u64) -> u64 { (((b & OPPONENT_LOST_KING_SIDE_CASTLE_MASK) >> 8u64)) }
pub open spec fn f_opponent_lost_queen_side_castle(b: u64) -> u64 { (((b & OPPONENT_LOST_QUEEN_SIDE_CASTLE_MASK) >> 9u64)) }
pub open spec fn f_castle_move(b: u64) -> u64 { (((b & CASTLE_MOVE_MASK) >> 10u64)) }
pub open spec fn f_en_passant_attack(b: u64) -> u64 { (((b & EN_PASSANT_ATTACK_MASK) >> 11u64)) }
pub open spec fn f_source_square(b: u64) -> u32 { (((b & SOURCE_SQUARE_MASK) >> 12u64) as u32) }
pub open spec fn f_target_square(b: u64) -> u32 { (((b & TARGET_SQUARE_MASK) >> 18u64) as u32) }
pub open spec fn f_halfmove_reset(b: u64) -> u64 { (((b & HALFMOVE_RESET_MASK) >> 24u64)) }
pub open spec fn f_previous_halfmove(b: u64) -> u32 { (((b & PREVIOUS_HALFMOVE_MASK) >> 25u64) as u32) }
pub open spec fn f_previous_en_passant_square(b: u64) -> u32 { (((b & PREVIOUS_EN_PASSANT_SQUARE_MASK) >> 37u64) as u32) }
pub open spec fn f_next_en_passant_square(b: u64) -> u32 { (((b & NEXT_EN_PASSANT_SQUARE_MASK) >> 43u64) as u32) }
pub open spec fn f_promotion_piece(b: u64) -> u64 { (((b & PROMOTION_PIECE_MASK) >> 49u64)) }
pub open spec fn f_side_to_move(b: u64) -> u32 { (((b & SIDE_TO_MOVE_MASK) >> 52u64) as u32) }

