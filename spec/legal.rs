// ---- legality layer over the (here uninterpreted) check predicate ----
/// legal position: well-formed and the side that is NOT to move is not in check
pub open spec fn legal_pos(v: Pos) -> bool { board_wf(v) && clocks_ok(v) && !in_check(v, (1 - v.turn) as u32) }
pub open spec fn succ_of(v: Pos, m: Move) -> Pos {
    rules_succ(v, f_source_square(m.bits), f_target_square(m.bits), f_promotion_piece(m.bits))
}
/// m is a legal move of v: consistently encoded, captures no king, and does not leave the mover's king attacked
pub open spec fn legal_move(v: Pos, m: Move) -> bool {
    move_wf(v, m) && no_king_capture(v, m) && !in_check(succ_of(v, m), v.turn)
}
pub proof fn lemma_kings_preserved(v: Pos, m: Move)
    requires board_wf(v), move_wf(v, m), no_king_capture(v, m)
    ensures pos_kings_ok(succ_of(v, m)), succ_of(v, m).turn <= 1
{
    let src = f_source_square(m.bits);
    let dst = f_target_square(m.bits);
    let me = side(v, v.turn);
    let piece = piece_at(me, sqm(src));
    let k = me.kings;
    let (a, b) = (src as u64, dst as u64);
    assert(a < 64 && b < 64 && k != 0 && k & ((k - 1) as u64) == 0 && k & (1u64 << a) != 0
        ==> (k & !(1u64 << a)) | (1u64 << b) == (1u64 << b)) by(bit_vector);
    assert(b < 64 ==> (1u64 << b) != 0 && (1u64 << b) & (((1u64 << b) - 1) as u64) == 0) by(bit_vector);
    if piece == 6 {
        lemma_piece_at_some(me, sqm(src));
    }
}
/// board_wf is an invariant of play.  ASSUMED on the Verus side; DISCHARGED by the Kani harness `rules::wf_preserved`
/// (kani/rules.rs) over the same predicate text compiled as Rust by tools/spec2rust.py — full symbolic domain, loop-free.
#[verifier::external_body]
pub proof fn lemma_wf_preserved(v: Pos, m: Move)
    requires board_wf(v), clocks_ok(v), move_wf(v, m), no_king_capture(v, m)
    ensures board_wf(succ_of(v, m))
{}
