// ---- bit-vector lemmas (each discharged by Z3's bit-vector theory) ----
pub proof fn lemma_shift8(s: u32)
    requires s < 64
    ensures
        s < 56 ==> sqm(s) << 8 == sqm((s + 8) as u32),
        s >= 8 ==> sqm(s) >> 8 == sqm((s - 8) as u32),
        sqm(s) != 0,
{
    let a = s as u64;
    assert(a < 56 ==> (1u64 << a) << 8 == 1u64 << ((a + 8) as u64)) by(bit_vector);
    assert(8 <= a < 64 ==> (1u64 << a) >> 8 == 1u64 << ((a - 8) as u64)) by(bit_vector);
    assert(a < 64 ==> (1u64 << a) != 0) by(bit_vector);
}
pub proof fn lemma_sq_consts()
    ensures
        sqm(56) == A1_MASK, sqm(58) == C1_MASK, sqm(59) == D1_MASK, sqm(60) == E1_MASK, sqm(61) == F1_MASK, sqm(62) == G1_MASK, sqm(63) == H1_MASK,
        sqm(0) == A8_MASK, sqm(2) == C8_MASK, sqm(3) == D8_MASK, sqm(4) == E8_MASK, sqm(5) == F8_MASK, sqm(6) == G8_MASK, sqm(7) == H8_MASK,
        sqm(57) == B1_MASK, sqm(1) == B8_MASK,
{
    assert(sqm(56) == A1_MASK) by(compute); assert(sqm(58) == C1_MASK) by(compute); assert(sqm(59) == D1_MASK) by(compute);
    assert(sqm(60) == E1_MASK) by(compute); assert(sqm(61) == F1_MASK) by(compute); assert(sqm(62) == G1_MASK) by(compute);
    assert(sqm(63) == H1_MASK) by(compute); assert(sqm(0) == A8_MASK) by(compute); assert(sqm(2) == C8_MASK) by(compute);
    assert(sqm(3) == D8_MASK) by(compute); assert(sqm(4) == E8_MASK) by(compute); assert(sqm(5) == F8_MASK) by(compute);
    assert(sqm(6) == G8_MASK) by(compute); assert(sqm(7) == H8_MASK) by(compute);
    assert(sqm(57) == B1_MASK) by(compute); assert(sqm(1) == B8_MASK) by(compute);
}
/// nothing of this side stands on any square of `m`
pub proof fn lemma_piece_at_none(p: Side, m: u64)
    requires all_occ(p) & m == 0
    ensures piece_at(p, m) == 0, p.pawns & m == 0, p.knights & m == 0, p.bishops & m == 0, p.rooks & m == 0, p.queens & m == 0, p.kings & m == 0
{
    let (a, b, c, d, e, f) = (p.kings, p.queens, p.rooks, p.bishops, p.knights, p.pawns);
    assert((a | b | c | d | e | f) & m == 0 ==> a & m == 0 && b & m == 0 && c & m == 0 && d & m == 0 && e & m == 0 && f & m == 0) by(bit_vector);
}
pub proof fn lemma_and_or_split(x: u64, m1: u64, m2: u64)
    requires x & (m1 | m2) == 0
    ensures x & m1 == 0, x & m2 == 0
{
    assert(x & (m1 | m2) == 0 ==> x & m1 == 0 && x & m2 == 0) by(bit_vector);
}
pub proof fn lemma_or_and_split(x: u64, y: u64, m: u64)
    requires (x | y) & m == 0
    ensures x & m == 0, y & m == 0
{
    assert((x | y) & m == 0 ==> x & m == 0 && y & m == 0) by(bit_vector);
}
/// undoing "move a bit from s to d" / "clear bit d" / "set bit d" on one bitboard
pub proof fn lemma_undo_bits(x: u64, s: u32, d: u32)
    requires s < 64, d < 64, s != d
    ensures
        x & sqm(s) != 0 && x & sqm(d) == 0 ==> ((((x & !sqm(s)) | sqm(d)) | sqm(s)) & !sqm(d)) == x,
        x & sqm(s) != 0 && x & sqm(d) == 0 ==> ((((x & !sqm(s)) | sqm(d)) & !sqm(d)) | sqm(s)) == x,
        x & sqm(s) != 0 ==> ((x & !sqm(s)) | sqm(s)) == x,
        x & sqm(d) == 0 ==> ((x | sqm(d)) & !sqm(d)) == x,
        x & sqm(d) != 0 ==> ((x & !sqm(d)) | sqm(d)) == x,
{
    let a = s as u64;
    let b = d as u64;
    assert(a < 64 && b < 64 && a != b && x & (1u64 << a) != 0 && x & (1u64 << b) == 0 ==> ((((x & !(1u64 << a)) | (1u64 << b)) | (1u64 << a)) & !(1u64 << b)) == x) by(bit_vector);
    assert(a < 64 && b < 64 && a != b && x & (1u64 << a) != 0 && x & (1u64 << b) == 0 ==> ((((x & !(1u64 << a)) | (1u64 << b)) & !(1u64 << b)) | (1u64 << a)) == x) by(bit_vector);
    assert(a < 64 && x & (1u64 << a) != 0 ==> ((x & !(1u64 << a)) | (1u64 << a)) == x) by(bit_vector);
    assert(b < 64 && x & (1u64 << b) == 0 ==> ((x | (1u64 << b)) & !(1u64 << b)) == x) by(bit_vector);
    assert(b < 64 && x & (1u64 << b) != 0 ==> ((x & !(1u64 << b)) | (1u64 << b)) == x) by(bit_vector);
}
/// a side's piece kind at a single square: exactly that kind's board has the bit
pub proof fn lemma_piece_at_some(p: Side, m: u64)
    ensures
        piece_at(p, m) != 0 ==> occ(p, piece_at(p, m)) & m != 0,
        piece_at(p, m) == 0 ==> all_occ(p) & m == 0,
{
    let (a, b, c, d, e, f) = (p.kings, p.queens, p.rooks, p.bishops, p.knights, p.pawns);
    assert(a & m == 0 && b & m == 0 && c & m == 0 && d & m == 0 && e & m == 0 && f & m == 0 ==> (a | b | c | d | e | f) & m == 0) by(bit_vector);
}
