// ---- C06, last sentence: "changing any single one of those components changes the hash".  The facts about the key tables
//      (every key non-zero, no two keys equal) are discharged by Kani (zobrist::keys_nonzero_distinct over all 781 keys). ----
#[verifier::external_body]
pub proof fn axiom_keys_distinct()
    ensures
        forall|p: u64, s: u32, c: u32| 1 <= p <= 6 && s < 64 && c <= 1 ==> #[trigger] key(p, s, c) != 0,
        forall|p: u64, s: u32, c: u32, p2: u64, s2: u32, c2: u32| 1 <= p <= 6 && s < 64 && c <= 1 && 1 <= p2 <= 6 && s2 < 64 && c2 <= 1
            && !(p == p2 && s == s2 && c == c2) ==> #[trigger] key(p, s, c) != #[trigger] key(p2, s2, c2),
        forall|f: u32| f < 8 ==> #[trigger] ep_key(f) != 0,
        forall|f: u32, g: u32| f < 8 && g < 8 && f != g ==> #[trigger] ep_key(f) != #[trigger] ep_key(g),
        castle_key(5, 0) != 0, castle_key(6, 0) != 0, castle_key(5, 1) != 0, castle_key(6, 1) != 0,
        BLACK_TO_MOVE_HASH_SPEC() != 0,
{}

/// the board of `kind` (1 pawn .. 6 king) of colour `c` replaced
pub open spec fn side_with(p: Side, kind: u64, occ: u64) -> Side {
    if kind == 1 { Side { pawns: occ, ..p } } else if kind == 2 { Side { knights: occ, ..p } } else if kind == 3 { Side { bishops: occ, ..p } }
    else if kind == 4 { Side { rooks: occ, ..p } } else if kind == 5 { Side { queens: occ, ..p } } else { Side { kings: occ, ..p } }
}
pub open spec fn side_board(p: Side, kind: u64) -> u64 {
    if kind == 1 { p.pawns } else if kind == 2 { p.knights } else if kind == 3 { p.bishops } else if kind == 4 { p.rooks } else if kind == 5 { p.queens } else { p.kings }
}
pub open spec fn pos_with(v: Pos, c: u32, kind: u64, occ: u64) -> Pos {
    if c == 0 { Pos { w: side_with(v.w, kind, occ), ..v } } else { Pos { b: side_with(v.b, kind, occ), ..v } }
}

/// a piece of any kind and colour appearing on (or vanishing from) one square changes the hash by exactly that piece-square key
pub proof fn lemma_one_piece_changes_hash(v: Pos, c: u32, kind: u64, s: u32)
    requires c <= 1, 1 <= kind <= 6, s < 64, !bit_set(side_board(if c == 0 { v.w } else { v.b }, kind), s)
    ensures
        spec_hash(pos_with(v, c, kind, side_board(if c == 0 { v.w } else { v.b }, kind) | sqm(s))) == spec_hash(v) ^ key(kind, s, c),
        spec_hash(pos_with(v, c, kind, side_board(if c == 0 { v.w } else { v.b }, kind) | sqm(s))) != spec_hash(v),
{
    axiom_keys_distinct();
    let me = if c == 0 { v.w } else { v.b };
    let occ = side_board(me, kind);
    let v2 = pos_with(v, c, kind, occ | sqm(s));
    let k = key(kind, s, c);
    lemma_fold_set(occ, kind, c, s);
    lemma_hash_shape(v.w, v.b, v.turn, v.ep);
    lemma_hash_shape(v2.w, v2.b, v2.turn, v2.ep);
    let (r1, r2, r3, r4) = (kif(v.w.qs, castle_key(5, 0)), kif(v.w.ks, castle_key(6, 0)), kif(v.b.qs, castle_key(5, 1)), kif(v.b.ks, castle_key(6, 1)));
    if kind == 1 {
        // pawns live in the pawn hash only
        let (pw, pb) = (occ_hash(v.w.pawns, 1, 0), occ_hash(v.b.pawns, 1, 1));
        let (pw2, pb2) = (occ_hash(v2.w.pawns, 1, 0), occ_hash(v2.b.pawns, 1, 1));
        let sd = (BLACK_TO_MOVE_HASH_SPEC() * ((1 - v.turn) as u64)) as u64;
        let (nw, nb) = (np_hash(v.w, 0), np_hash(v.b, 1));
        assert(np_hash(v2.w, 0) == nw && np_hash(v2.b, 1) == nb);
        if v.ep != 0 {
            let e = ep_key(v.ep % 8);
            assert((((((nw ^ nb) ^ r1) ^ r2) ^ r3) ^ r4) ^ (((pw2 ^ pb2) ^ sd) ^ e) == ((((((nw ^ nb) ^ r1) ^ r2) ^ r3) ^ r4) ^ (((pw ^ pb) ^ sd) ^ e)) ^ k) by(bit_vector)
                requires (pw2 == pw ^ k && pb2 == pb) || (pw2 == pw && pb2 == pb ^ k);
        } else {
            assert((((((nw ^ nb) ^ r1) ^ r2) ^ r3) ^ r4) ^ ((pw2 ^ pb2) ^ sd) == ((((((nw ^ nb) ^ r1) ^ r2) ^ r3) ^ r4) ^ ((pw ^ pb) ^ sd)) ^ k) by(bit_vector)
                requires (pw2 == pw ^ k && pb2 == pb) || (pw2 == pw && pb2 == pb ^ k);
        }
    } else {
        let p = pawn_hash_c(v.w, v.b, v.turn, v.ep);
        assert(pawn_hash_c(v2.w, v2.b, v2.turn, v2.ep) == p);
        let (a6, a5, a4, a3, a2) = (occ_hash(me.kings, 6, c), occ_hash(me.queens, 5, c), occ_hash(me.rooks, 4, c), occ_hash(me.bishops, 3, c), occ_hash(me.knights, 2, c));
        let me2 = if c == 0 { v2.w } else { v2.b };
        let (b6, b5, b4, b3, b2) = (occ_hash(me2.kings, 6, c), occ_hash(me2.queens, 5, c), occ_hash(me2.rooks, 4, c), occ_hash(me2.bishops, 3, c), occ_hash(me2.knights, 2, c));
        let n1 = np_hash(me, c);
        let n2 = np_hash(me2, c);
        assert(n2 == n1 ^ k) by(bit_vector)
            requires n1 == ((((a6 ^ a5) ^ a4) ^ a3) ^ a2), n2 == ((((b6 ^ b5) ^ b4) ^ b3) ^ b2),
                (b6 == a6 ^ k && b5 == a5 && b4 == a4 && b3 == a3 && b2 == a2) || (b6 == a6 && b5 == a5 ^ k && b4 == a4 && b3 == a3 && b2 == a2)
                || (b6 == a6 && b5 == a5 && b4 == a4 ^ k && b3 == a3 && b2 == a2) || (b6 == a6 && b5 == a5 && b4 == a4 && b3 == a3 ^ k && b2 == a2)
                || (b6 == a6 && b5 == a5 && b4 == a4 && b3 == a3 && b2 == a2 ^ k);
        let other = if c == 0 { np_hash(v.b, 1) } else { np_hash(v.w, 0) };
        assert(((((((n1 ^ k) ^ other) ^ r1) ^ r2) ^ r3) ^ r4) ^ p == (((((((n1 ^ other) ^ r1) ^ r2) ^ r3) ^ r4) ^ p) ^ k)
            && ((((((other ^ (n1 ^ k)) ^ r1) ^ r2) ^ r3) ^ r4) ^ p == ((((((other ^ n1) ^ r1) ^ r2) ^ r3) ^ r4) ^ p) ^ k)) by(bit_vector);
    }
    let h = spec_hash(v);
    assert(h ^ k != h) by(bit_vector) requires k != 0;
}

/// flipping the side to move, one castling right, or the en-passant file changes the hash
pub proof fn lemma_side_right_ep_change_hash(v: Pos, v2: Pos)
    requires
        v.turn <= 1, v2.turn <= 1, v.w.pawns == v2.w.pawns && v.w.knights == v2.w.knights && v.w.bishops == v2.w.bishops && v.w.rooks == v2.w.rooks
            && v.w.queens == v2.w.queens && v.w.kings == v2.w.kings && v.b.pawns == v2.b.pawns && v.b.knights == v2.b.knights && v.b.bishops == v2.b.bishops
            && v.b.rooks == v2.b.rooks && v.b.queens == v2.b.queens && v.b.kings == v2.b.kings,
        // exactly one of: side to move, one right, the en-passant file differs
        ({
            let d_turn = v.turn != v2.turn;
            let d_wq = v.w.qs != v2.w.qs; let d_wk = v.w.ks != v2.w.ks; let d_bq = v.b.qs != v2.b.qs; let d_bk = v.b.ks != v2.b.ks;
            let d_ep = hash_key_of(v).ep_file != hash_key_of(v2).ep_file;
            (if d_turn { 1int } else { 0int }) + (if d_wq { 1int } else { 0int }) + (if d_wk { 1int } else { 0int }) + (if d_bq { 1int } else { 0int })
                + (if d_bk { 1int } else { 0int }) + (if d_ep { 1int } else { 0int }) == 1
        }),
    ensures spec_hash(v) != spec_hash(v2),
{
    axiom_keys_distinct();
    lemma_hash_shape(v.w, v.b, v.turn, v.ep);
    lemma_hash_shape(v2.w, v2.b, v2.turn, v2.ep);
    let n = np_hash(v.w, 0) ^ np_hash(v.b, 1);
    assert(np_hash(v2.w, 0) == np_hash(v.w, 0) && np_hash(v2.b, 1) == np_hash(v.b, 1));
    let (r1, r2, r3, r4) = (kif(v.w.qs, castle_key(5, 0)), kif(v.w.ks, castle_key(6, 0)), kif(v.b.qs, castle_key(5, 1)), kif(v.b.ks, castle_key(6, 1)));
    let (s1, s2, s3, s4) = (kif(v2.w.qs, castle_key(5, 0)), kif(v2.w.ks, castle_key(6, 0)), kif(v2.b.qs, castle_key(5, 1)), kif(v2.b.ks, castle_key(6, 1)));
    let pp = occ_hash(v.w.pawns, 1, 0) ^ occ_hash(v.b.pawns, 1, 1);
    let b = BLACK_TO_MOVE_HASH_SPEC();
    let sd = (b * ((1 - v.turn) as u64)) as u64;
    let sd2 = (b * ((1 - v2.turn) as u64)) as u64;
    assert(sd == (if v.turn == 0 { b } else { 0 })) by(nonlinear_arith) requires v.turn <= 1, sd == (b * ((1 - v.turn) as u64)) as u64;
    assert(sd2 == (if v2.turn == 0 { b } else { 0 })) by(nonlinear_arith) requires v2.turn <= 1, sd2 == (b * ((1 - v2.turn) as u64)) as u64;
    let e = if v.ep != 0 { ep_key(v.ep % 8) } else { 0 };
    let e2 = if v2.ep != 0 { ep_key(v2.ep % 8) } else { 0 };
    let p = pawn_hash_c(v.w, v.b, v.turn, v.ep);
    let p2 = pawn_hash_c(v2.w, v2.b, v2.turn, v2.ep);
    assert(p == (pp ^ sd) ^ e) by { if v.ep == 0 { assert(((pp ^ sd) ^ 0) == (pp ^ sd)) by(bit_vector); } }
    assert(p2 == (pp ^ sd2) ^ e2) by { if v2.ep == 0 { assert(((pp ^ sd2) ^ 0) == (pp ^ sd2)) by(bit_vector); } }
    // the two hashes differ by the xor of the six component differences, exactly one of which is a non-zero key (or a pair of distinct keys)
    let d = (((((r1 ^ s1) ^ (r2 ^ s2)) ^ (r3 ^ s3)) ^ (r4 ^ s4)) ^ (sd ^ sd2)) ^ (e ^ e2);
    assert((((((n ^ r1) ^ r2) ^ r3) ^ r4) ^ ((pp ^ sd) ^ e)) ^ (((((n ^ s1) ^ s2) ^ s3) ^ s4) ^ ((pp ^ sd2) ^ e2)) == d) by(bit_vector)
        requires d == (((((r1 ^ s1) ^ (r2 ^ s2)) ^ (r3 ^ s3)) ^ (r4 ^ s4)) ^ (sd ^ sd2)) ^ (e ^ e2);
    assert(r1 ^ r1 == 0 && r2 ^ r2 == 0 && r3 ^ r3 == 0 && r4 ^ r4 == 0 && sd ^ sd == 0 && e ^ e == 0) by(bit_vector);
    let (c1, c2, c3, c4, cb) = (castle_key(5, 0), castle_key(6, 0), castle_key(5, 1), castle_key(6, 1), b);
    assert(c1 ^ 0 == c1 && 0 ^ c1 == c1 && c2 ^ 0 == c2 && 0 ^ c2 == c2 && c3 ^ 0 == c3 && 0 ^ c3 == c3 && c4 ^ 0 == c4 && 0 ^ c4 == c4 && cb ^ 0 == cb && 0 ^ cb == cb) by(bit_vector);
    assert(e ^ 0 == e && 0 ^ e2 == e2) by(bit_vector);
    assert(e != e2 ==> e ^ e2 != 0) by(bit_vector);
    assert(forall|x: u64| #![auto] ((((0u64 ^ 0) ^ 0) ^ 0) ^ 0) ^ x == x && ((((x ^ 0) ^ 0) ^ 0) ^ 0) ^ 0 == x && ((((0u64 ^ x) ^ 0) ^ 0) ^ 0) ^ 0 == x
        && ((((0u64 ^ 0) ^ x) ^ 0) ^ 0) ^ 0 == x && ((((0u64 ^ 0) ^ 0) ^ x) ^ 0) ^ 0 == x && ((((0u64 ^ 0) ^ 0) ^ 0) ^ x) ^ 0 == x) by(bit_vector);
    let (t1, t2, t3, t4, t5, t6) = (r1 ^ s1, r2 ^ s2, r3 ^ s3, r4 ^ s4, sd ^ sd2, e ^ e2);
    assert(v.w.qs == v2.w.qs ==> t1 == 0);
    assert(v.w.ks == v2.w.ks ==> t2 == 0);
    assert(v.b.qs == v2.b.qs ==> t3 == 0);
    assert(v.b.ks == v2.b.ks ==> t4 == 0);
    assert(v.turn == v2.turn ==> t5 == 0);
    assert(hash_key_of(v).ep_file == hash_key_of(v2).ep_file ==> e == e2 && t6 == 0);
    assert(v.w.qs != v2.w.qs ==> t1 == c1);
    assert(v.w.ks != v2.w.ks ==> t2 == c2);
    assert(v.b.qs != v2.b.qs ==> t3 == c3);
    assert(v.b.ks != v2.b.ks ==> t4 == c4);
    assert(v.turn != v2.turn ==> t5 == cb);
    assert(hash_key_of(v).ep_file != hash_key_of(v2).ep_file ==> e != e2 && t6 != 0) by {
        if hash_key_of(v).ep_file != hash_key_of(v2).ep_file {
            if v.ep != 0 && v2.ep != 0 { assert(v.ep % 8 != v2.ep % 8); assert(ep_key(v.ep % 8) != ep_key(v2.ep % 8)); }
            else if v.ep != 0 { assert(ep_key(v.ep % 8) != 0); }
            else { assert(v2.ep != 0); assert(ep_key(v2.ep % 8) != 0); }
        }
    }
    assert(d == ((((t1 ^ t2) ^ t3) ^ t4) ^ t5) ^ t6);
    // exactly one t_i is non-zero
    assert(d != 0) by(bit_vector)
        requires d == ((((t1 ^ t2) ^ t3) ^ t4) ^ t5) ^ t6,
            (t1 != 0 && t2 == 0 && t3 == 0 && t4 == 0 && t5 == 0 && t6 == 0) || (t1 == 0 && t2 != 0 && t3 == 0 && t4 == 0 && t5 == 0 && t6 == 0)
            || (t1 == 0 && t2 == 0 && t3 != 0 && t4 == 0 && t5 == 0 && t6 == 0) || (t1 == 0 && t2 == 0 && t3 == 0 && t4 != 0 && t5 == 0 && t6 == 0)
            || (t1 == 0 && t2 == 0 && t3 == 0 && t4 == 0 && t5 != 0 && t6 == 0) || (t1 == 0 && t2 == 0 && t3 == 0 && t4 == 0 && t5 == 0 && t6 != 0);
    let (h, h2) = (spec_hash(v), spec_hash(v2));
    assert(h ^ h2 != 0 ==> h != h2) by(bit_vector);
}
