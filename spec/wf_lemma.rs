// ---- board_wf is an invariant of play: rules_succ preserves it (induction step for "arbitrarily long games") ----
pub proof fn lemma_disjoint_move(a: u64, b: u64, c: u64, d: u64, e: u64, f: u64, sm: u64, dm: u64)
    requires
        a & b == 0, a & c == 0, a & d == 0, a & e == 0, a & f == 0, b & c == 0, b & d == 0, b & e == 0, b & f == 0,
        c & d == 0, c & e == 0, c & f == 0, d & e == 0, d & f == 0, e & f == 0,
        (a | b | c | d | e | f) & dm == 0,
    ensures
        // moving within one kind (a), or from kind a to kind b (promotion), keeps all six pairwise disjoint
        ((a & !sm) | dm) & b == 0, ((a & !sm) | dm) & c == 0, ((a & !sm) | dm) & d == 0, ((a & !sm) | dm) & e == 0, ((a & !sm) | dm) & f == 0,
        (a & !sm) & (b | dm) == 0, (b | dm) & c == 0, (b | dm) & d == 0, (b | dm) & e == 0, (b | dm) & f == 0,
        (a & !sm) & b == 0, (a & !sm) & c == 0, (a & !sm) & d == 0, (a & !sm) & e == 0, (a & !sm) & f == 0,
{
    assert(a & b == 0 && a & c == 0 && a & d == 0 && a & e == 0 && a & f == 0 && b & c == 0 && b & d == 0 && b & e == 0 && b & f == 0
        && c & d == 0 && c & e == 0 && c & f == 0 && d & e == 0 && d & f == 0 && e & f == 0 && (a | b | c | d | e | f) & dm == 0
        ==> ((a & !sm) | dm) & b == 0 && ((a & !sm) | dm) & c == 0 && ((a & !sm) | dm) & d == 0 && ((a & !sm) | dm) & e == 0 && ((a & !sm) | dm) & f == 0
         && (a & !sm) & (b | dm) == 0 && (b | dm) & c == 0 && (b | dm) & d == 0 && (b | dm) & e == 0 && (b | dm) & f == 0
         && (a & !sm) & b == 0 && (a & !sm) & c == 0 && (a & !sm) & d == 0 && (a & !sm) & e == 0 && (a & !sm) & f == 0) by(bit_vector);
}
