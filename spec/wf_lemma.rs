// ---- board_wf is an invariant of play: rules_succ preserves it (induction step for "arbitrarily long games") ----

/// one kind of a side moves a bit (a -> a) or a pawn promotes (a -> b); the six boards stay pairwise disjoint
/// and their union changes as expected
pub proof fn lemma_bv_move(a: u64, b: u64, c: u64, d: u64, e: u64, f: u64, s: u32, t: u32)
    requires
        s < 64, t < 64, s != t,
        a & b == 0, a & c == 0, a & d == 0, a & e == 0, a & f == 0, b & c == 0, b & d == 0, b & e == 0, b & f == 0,
        c & d == 0, c & e == 0, c & f == 0, d & e == 0, d & f == 0, e & f == 0,
        (a | b | c | d | e | f) & sqm(t) == 0,
        a & sqm(s) != 0,
    ensures
        ((a & !sqm(s)) | sqm(t)) & b == 0, ((a & !sqm(s)) | sqm(t)) & c == 0, ((a & !sqm(s)) | sqm(t)) & d == 0,
        ((a & !sqm(s)) | sqm(t)) & e == 0, ((a & !sqm(s)) | sqm(t)) & f == 0,
        (a & !sqm(s)) & (b | sqm(t)) == 0, (b | sqm(t)) & c == 0, (b | sqm(t)) & d == 0, (b | sqm(t)) & e == 0, (b | sqm(t)) & f == 0,
        (a & !sqm(s)) & c == 0, (a & !sqm(s)) & d == 0, (a & !sqm(s)) & e == 0, (a & !sqm(s)) & f == 0,
        // union, in every permutation order used by all_occ
        (((a & !sqm(s)) | sqm(t)) | b | c | d | e | f) == ((a | b | c | d | e | f) & !sqm(s)) | sqm(t),
        ((a & !sqm(s)) | (b | sqm(t)) | c | d | e | f) == ((a | b | c | d | e | f) & !sqm(s)) | sqm(t),
{
    let (x, y) = (s as u64, t as u64);
    assert(x < 64 && y < 64 && x != y
        && a & b == 0 && a & c == 0 && a & d == 0 && a & e == 0 && a & f == 0 && b & c == 0 && b & d == 0 && b & e == 0 && b & f == 0
        && c & d == 0 && c & e == 0 && c & f == 0 && d & e == 0 && d & f == 0 && e & f == 0
        && (a | b | c | d | e | f) & (1u64 << y) == 0 && a & (1u64 << x) != 0
        ==> ((a & !(1u64 << x)) | (1u64 << y)) & b == 0 && ((a & !(1u64 << x)) | (1u64 << y)) & c == 0 && ((a & !(1u64 << x)) | (1u64 << y)) & d == 0
         && ((a & !(1u64 << x)) | (1u64 << y)) & e == 0 && ((a & !(1u64 << x)) | (1u64 << y)) & f == 0
         && (a & !(1u64 << x)) & (b | (1u64 << y)) == 0 && (b | (1u64 << y)) & c == 0 && (b | (1u64 << y)) & d == 0 && (b | (1u64 << y)) & e == 0 && (b | (1u64 << y)) & f == 0
         && (a & !(1u64 << x)) & c == 0 && (a & !(1u64 << x)) & d == 0 && (a & !(1u64 << x)) & e == 0 && (a & !(1u64 << x)) & f == 0
         && (((a & !(1u64 << x)) | (1u64 << y)) | b | c | d | e | f) == ((a | b | c | d | e | f) & !(1u64 << x)) | (1u64 << y)
         && ((a & !(1u64 << x)) | (b | (1u64 << y)) | c | d | e | f) == ((a | b | c | d | e | f) & !(1u64 << x)) | (1u64 << y)) by(bit_vector);
}
