// ---- hashes, abstract: in units that only thread hashes through calls the from-scratch hashes are opaque functions of the
// position (their definitions, spec/hash_spec.rs, and the facts about them are verified in unit hashes under the same names) ----
pub uninterp spec fn spec_hash(v: Pos) -> u64;
pub uninterp spec fn spec_pawn_hash(v: Pos) -> u64;
pub uninterp spec fn zx_spec(m: Move) -> (u64, u64);
