// ---- incremental hash update equals recomputation: pure mathematics over the rules (rules_succ) and the fold spec ----

/// value of an optional key
pub open spec fn kif(c: bool, k: u64) -> u64 { if c { k } else { 0 } }

/// xor algebra, discharged by the bit-vector theory
pub proof fn lemma_x5(a: u64, b: u64, c: u64, d: u64, e: u64, a2: u64, b2: u64, c2: u64, d2: u64, e2: u64, da: u64, db: u64, dc: u64, dd: u64, de: u64)
    requires a2 == a ^ da, b2 == b ^ db, c2 == c ^ dc, d2 == d ^ dd, e2 == e ^ de
    ensures ((((a ^ b) ^ c) ^ d) ^ e) ^ ((((a2 ^ b2) ^ c2) ^ d2) ^ e2) == (((da ^ db) ^ dc) ^ dd) ^ de
{
    assert(a2 == a ^ da && b2 == b ^ db && c2 == c ^ dc && d2 == d ^ dd && e2 == e ^ de
        ==> ((((a ^ b) ^ c) ^ d) ^ e) ^ ((((a2 ^ b2) ^ c2) ^ d2) ^ e2) == (((da ^ db) ^ dc) ^ dd) ^ de) by(bit_vector);
}
pub proof fn lemma_kif(c: bool, k: u64, h: u64)
    ensures (if c { h ^ k } else { h }) == h ^ kif(c, k)
{
    assert(h ^ 0 == h) by(bit_vector);
}
pub proof fn lemma_kif_pair(c1: bool, c2: bool, k: u64)
    requires c2 ==> c1          // a castling right can only be lost
    ensures kif(c1, k) ^ kif(c2, k) == kif(c1 && !c2, k)
{
    assert(k ^ k == 0 && k ^ 0 == k && 0u64 ^ 0 == 0) by(bit_vector);
}

/// side hash of the non-pawn boards, in the order hash_c uses
pub open spec fn np_hash(p: Side, c: u32) -> u64 {
    (((occ_hash(p.kings, 6, c) ^ occ_hash(p.queens, 5, c)) ^ occ_hash(p.rooks, 4, c)) ^ occ_hash(p.bishops, 3, c)) ^ occ_hash(p.knights, 2, c)
}
/// key delta of kind `kind` of the mover: source key if that kind moves, target key if that kind lands
pub open spec fn mover_delta(kind: u64, piece: u64, landed: u64, src: u32, dst: u32, c: u32) -> u64 {
    kif(kind == piece, key(kind, src, c)) ^ kif(kind == landed, key(kind, dst, c))
}

pub proof fn lemma_x10(o: Seq<u64>, n: Seq<u64>, d: Seq<u64>)
    requires o.len() == 10, n.len() == 10, d.len() == 10, forall|i: int| 0 <= i < 10 ==> n[i] == o[i] ^ d[i]
    ensures
        (((((((((o[0] ^ o[1]) ^ o[2]) ^ o[3]) ^ o[4]) ^ o[5]) ^ o[6]) ^ o[7]) ^ o[8]) ^ o[9])
        ^ (((((((((n[0] ^ n[1]) ^ n[2]) ^ n[3]) ^ n[4]) ^ n[5]) ^ n[6]) ^ n[7]) ^ n[8]) ^ n[9])
        == ((((((((d[0] ^ d[1]) ^ d[2]) ^ d[3]) ^ d[4]) ^ d[5]) ^ d[6]) ^ d[7]) ^ d[8]) ^ d[9]
{
    let (o0, o1, o2, o3, o4, o5, o6, o7, o8, o9) = (o[0], o[1], o[2], o[3], o[4], o[5], o[6], o[7], o[8], o[9]);
    let (n0, n1, n2, n3, n4, n5, n6, n7, n8, n9) = (n[0], n[1], n[2], n[3], n[4], n[5], n[6], n[7], n[8], n[9]);
    let (d0, d1, d2, d3, d4, d5, d6, d7, d8, d9) = (d[0], d[1], d[2], d[3], d[4], d[5], d[6], d[7], d[8], d[9]);
    assert(n0 == o0 ^ d0 && n1 == o1 ^ d1 && n2 == o2 ^ d2 && n3 == o3 ^ d3 && n4 == o4 ^ d4 && n5 == o5 ^ d5 && n6 == o6 ^ d6 && n7 == o7 ^ d7 && n8 == o8 ^ d8 && n9 == o9 ^ d9
        ==> (((((((((o0 ^ o1) ^ o2) ^ o3) ^ o4) ^ o5) ^ o6) ^ o7) ^ o8) ^ o9) ^ (((((((((n0 ^ n1) ^ n2) ^ n3) ^ n4) ^ n5) ^ n6) ^ n7) ^ n8) ^ n9)
            == ((((((((d0 ^ d1) ^ d2) ^ d3) ^ d4) ^ d5) ^ d6) ^ d7) ^ d8) ^ d9) by(bit_vector);
}

/// per-kind hash deltas of the two sides for the move m in position v (mover colour c = v.turn)
pub open spec fn me_delta(v: Pos, m: Move, kind: u64) -> u64 {
    let src = f_source_square(m.bits);
    let dst = f_target_square(m.bits);
    let promo = f_promotion_piece(m.bits);
    let piece = piece_at(side(v, v.turn), sqm(src));
    let landed = if promo != 0 { promo } else { piece };
    let base = mover_delta(kind, piece, landed, src, dst, v.turn);
    if kind == 4 && is_castle_rule(piece, src, dst) {
        (base ^ key(4, castle_rook_from_sq(src, dst), v.turn)) ^ key(4, castle_rook_to_sq(src, dst), v.turn)
    } else { base }
}
pub open spec fn cap_sq(v: Pos, m: Move) -> u32 {
    let src = f_source_square(m.bits);
    let dst = f_target_square(m.bits);
    let piece = piece_at(side(v, v.turn), sqm(src));
    if is_ep_rule(v, piece, src, dst) { if v.turn == 0 { (dst + 8) as u32 } else { (dst - 8) as u32 } } else { dst }
}
pub open spec fn op_delta(v: Pos, m: Move, kind: u64) -> u64 {
    let src = f_source_square(m.bits);
    let dst = f_target_square(m.bits);
    let piece = piece_at(side(v, v.turn), sqm(src));
    let captured = piece_at(side(v, (1 - v.turn) as u32), capture_mask(v, piece, src, dst));
    kif(kind == captured, key(kind, cap_sq(v, m), (1 - v.turn) as u32))
}

/// every board hash of the successor is the old board hash xor its delta
pub proof fn lemma_board_deltas(v: Pos, m: Move, kind: u64)
    requires board_wf(v), move_wf(v, m), 1 <= kind <= 6
    ensures
        occ_hash(occ(side(succ_of(v, m), v.turn), kind), kind, v.turn) == occ_hash(occ(side(v, v.turn), kind), kind, v.turn) ^ me_delta(v, m, kind),
        occ_hash(occ(side(succ_of(v, m), (1 - v.turn) as u32), kind), kind, (1 - v.turn) as u32)
            == occ_hash(occ(side(v, (1 - v.turn) as u32), kind), kind, (1 - v.turn) as u32) ^ op_delta(v, m, kind),
{
    let c = v.turn;
    let oc = (1 - v.turn) as u32;
    let me = side(v, c);
    let op = side(v, oc);
    let src = f_source_square(m.bits);
    let dst = f_target_square(m.bits);
    let promo = f_promotion_piece(m.bits);
    let piece = piece_at(me, sqm(src));
    let landed = if promo != 0 { promo } else { piece };
    let capm = capture_mask(v, piece, src, dst);
    let captured = piece_at(op, capm);
    let x = occ(me, kind);
    let y = occ(op, kind);
    // mover side
    lemma_piece_at_some(me, sqm(src));
    lemma_piece_at_none(me, sqm(dst));
    lemma_bit_and_mask(x, src);
    lemma_bit_and_mask(x, dst);
    lemma_hash_move_bits(x, kind, piece, landed, src, dst, c);
    let h = occ_hash(x, kind, c);
    let a = kif(kind == piece, key(kind, src, c));
    let b = kif(kind == landed, key(kind, dst, c));
    assert((h ^ a) ^ b == h ^ (a ^ b)) by(bit_vector);
    if kind == 4 && is_castle_rule(piece, src, dst) {
        // castling: the rook leaves its corner (present: the right implies it) and lands next to the king (empty: between squares)
        let rf = castle_rook_from_sq(src, dst);
        let rt = castle_rook_to_sq(src, dst);
        lemma_sq_consts();
        lemma_bit_and_mask(me.rooks, rf);
        lemma_bit_and_mask(me.rooks, rt);
        let between = if dst > src { sqm((src + 1) as u32) | sqm((src + 2) as u32) } else { sqm((src - 1) as u32) | sqm((src - 2) as u32) | sqm((src - 3) as u32) };
        lemma_or_and_split(all_occ(me), all_occ(op), between);
        if dst > src {
            lemma_and_or_split(all_occ(me), sqm((src + 1) as u32), sqm((src + 2) as u32));
            lemma_piece_at_none(me, sqm((src + 1) as u32));
        } else {
            lemma_and_or_split(all_occ(me), sqm((src - 1) as u32) | sqm((src - 2) as u32), sqm((src - 3) as u32));
            lemma_and_or_split(all_occ(me), sqm((src - 1) as u32), sqm((src - 2) as u32));
            lemma_piece_at_none(me, sqm((src - 1) as u32));
        }
        lemma_hash_clear(me.rooks, 4, c, rf);
        lemma_bit_andnot(me.rooks, sqm(rf));
        lemma_bit_and_mask(sqm(rf), rt);
        lemma_fold_set(me.rooks & !sqm(rf), 4, c, rt);
        let h0 = occ_hash(me.rooks, 4, c);
        let h1 = occ_hash(me.rooks & !sqm(rf), 4, c);
        let (kf, kt) = (key(4, rf, c), key(4, rt, c));
        assert(h1 ^ kt == (h0 ^ kf) ^ kt) by(bit_vector) requires h1 ^ kf == h0;
        assert(0u64 ^ 0 == 0 && (h0 ^ 0) == h0 && ((0u64 ^ kf) ^ kt) == kf ^ kt && h0 ^ (kf ^ kt) == (h0 ^ kf) ^ kt) by(bit_vector);
    }
    // opponent side
    lemma_shift8(dst);
    lemma_piece_at_some(op, capm);
    lemma_bit_and_mask(y, cap_sq(v, m));
    lemma_hash_cap_bits(y, kind, captured, cap_sq(v, m), oc);
}

/// selecting one of five keys by kind: the xor over kinds 6..2 of "key if this kind" is the key of the selected kind
pub open spec fn sel5(p: u64, f6: u64, f5: u64, f4: u64, f3: u64, f2: u64) -> u64 {
    if p == 6 { f6 } else if p == 5 { f5 } else if p == 4 { f4 } else if p == 3 { f3 } else if p == 2 { f2 } else { 0 }
}
pub proof fn lemma_select5(p: u64, f6: u64, f5: u64, f4: u64, f3: u64, f2: u64)
    ensures ((((kif(6 == p, f6) ^ kif(5 == p, f5)) ^ kif(4 == p, f4)) ^ kif(3 == p, f3)) ^ kif(2 == p, f2)) == sel5(p, f6, f5, f4, f3, f2)
{
    assert(((((f6 ^ 0) ^ 0) ^ 0) ^ 0) == f6 && ((((0u64 ^ f5) ^ 0) ^ 0) ^ 0) == f5 && ((((0u64 ^ 0) ^ f4) ^ 0) ^ 0) == f4
        && ((((0u64 ^ 0) ^ 0) ^ f3) ^ 0) == f3 && ((((0u64 ^ 0) ^ 0) ^ 0) ^ f2) == f2 && ((((0u64 ^ 0) ^ 0) ^ 0) ^ 0) == 0) by(bit_vector);
}
/// regrouping: per-kind (source ^ target) deltas = (all source deltas) ^ (all target deltas) ^ castle-rook keys
pub proof fn lemma_regroup(s6: u64, s5: u64, s4: u64, s3: u64, s2: u64, d6: u64, d5: u64, d4: u64, d3: u64, d2: u64, rf: u64, rt: u64)
    ensures
        (((((s6 ^ d6) ^ (s5 ^ d5)) ^ (((s4 ^ d4) ^ rf) ^ rt)) ^ (s3 ^ d3)) ^ (s2 ^ d2))
            == ((((((s6 ^ s5) ^ s4) ^ s3) ^ s2) ^ ((((d6 ^ d5) ^ d4) ^ d3) ^ d2)) ^ rf) ^ rt,
        (((((s6 ^ d6) ^ (s5 ^ d5)) ^ (s4 ^ d4)) ^ (s3 ^ d3)) ^ (s2 ^ d2))
            == (((((s6 ^ s5) ^ s4) ^ s3) ^ s2) ^ ((((d6 ^ d5) ^ d4) ^ d3) ^ d2)),
{
    assert((((((s6 ^ d6) ^ (s5 ^ d5)) ^ (((s4 ^ d4) ^ rf) ^ rt)) ^ (s3 ^ d3)) ^ (s2 ^ d2))
            == ((((((s6 ^ s5) ^ s4) ^ s3) ^ s2) ^ ((((d6 ^ d5) ^ d4) ^ d3) ^ d2)) ^ rf) ^ rt
        && (((((s6 ^ d6) ^ (s5 ^ d5)) ^ (s4 ^ d4)) ^ (s3 ^ d3)) ^ (s2 ^ d2))
            == (((((s6 ^ s5) ^ s4) ^ s3) ^ s2) ^ ((((d6 ^ d5) ^ d4) ^ d3) ^ d2))) by(bit_vector);
}
/// total non-pawn delta of the mover's boards (kinds 6,5,4,3,2 in hash order) and of the opponent's boards
pub open spec fn me_total(v: Pos, m: Move) -> u64 {
    (((me_delta(v, m, 6) ^ me_delta(v, m, 5)) ^ me_delta(v, m, 4)) ^ me_delta(v, m, 3)) ^ me_delta(v, m, 2)
}
pub open spec fn op_total(v: Pos, m: Move) -> u64 {
    (((op_delta(v, m, 6) ^ op_delta(v, m, 5)) ^ op_delta(v, m, 4)) ^ op_delta(v, m, 3)) ^ op_delta(v, m, 2)
}
/// the position hash splits into non-pawn boards of white, of black, the four right keys and the pawn hash
pub proof fn lemma_hash_shape(w: Side, b: Side, turn: u32, ep: u32)
    ensures
        hash_c(w, b, turn, ep) == (((((np_hash(w, 0) ^ np_hash(b, 1)) ^ kif(w.qs, castle_key(5, 0))) ^ kif(w.ks, castle_key(6, 0))) ^ kif(b.qs, castle_key(5, 1)))
            ^ kif(b.ks, castle_key(6, 1))) ^ pawn_hash_c(w, b, turn, ep),
{
    let (a0, a1, a2, a3, a4) = (occ_hash(w.kings, 6, 0), occ_hash(w.queens, 5, 0), occ_hash(w.rooks, 4, 0), occ_hash(w.bishops, 3, 0), occ_hash(w.knights, 2, 0));
    let (b0, b1, b2, b3, b4) = (occ_hash(b.kings, 6, 1), occ_hash(b.queens, 5, 1), occ_hash(b.rooks, 4, 1), occ_hash(b.bishops, 3, 1), occ_hash(b.knights, 2, 1));
    let h0 = a0 ^ a1 ^ a2 ^ a3 ^ a4 ^ b0 ^ b1 ^ b2 ^ b3 ^ b4;
    assert(h0 == ((((a0 ^ a1) ^ a2) ^ a3) ^ a4) ^ ((((b0 ^ b1) ^ b2) ^ b3) ^ b4)) by(bit_vector)
        requires h0 == (((((((((a0 ^ a1) ^ a2) ^ a3) ^ a4) ^ b0) ^ b1) ^ b2) ^ b3) ^ b4);
    let h1 = if w.qs { h0 ^ castle_key(5, 0) } else { h0 };
    lemma_kif(w.qs, castle_key(5, 0), h0);
    let h2 = if w.ks { h1 ^ castle_key(6, 0) } else { h1 };
    lemma_kif(w.ks, castle_key(6, 0), h1);
    let h3 = if b.qs { h2 ^ castle_key(5, 1) } else { h2 };
    lemma_kif(b.qs, castle_key(5, 1), h2);
    lemma_kif(b.ks, castle_key(6, 1), h3);
}

/// assembling the full-hash delta from the deltas of its parts (pure xor algebra)
pub proof fn lemma_assemble(npw: u64, npb: u64, npw2: u64, npb2: u64, dw: u64, db: u64,
                            a1: u64, a2: u64, a3: u64, a4: u64, b1: u64, b2: u64, b3: u64, b4: u64, l1: u64, l2: u64, l3: u64, l4: u64,
                            pw: u64, pb: u64, pw2: u64, pb2: u64, dpw: u64, dpb: u64, sv: u64, ss: u64, bk: u64, ev: u64, es: u64)
    requires
        npw ^ npw2 == dw, npb ^ npb2 == db,
        a1 ^ b1 == l1, a2 ^ b2 == l2, a3 ^ b3 == l3, a4 ^ b4 == l4,
        pw2 == pw ^ dpw, pb2 == pb ^ dpb, sv ^ ss == bk,
    ensures
        (((pw ^ pb) ^ sv) ^ ev) ^ (((pw2 ^ pb2) ^ ss) ^ es) == (((dpw ^ dpb) ^ bk) ^ ev) ^ es,
        ((((((npw ^ npb) ^ a1) ^ a2) ^ a3) ^ a4) ^ (((pw ^ pb) ^ sv) ^ ev)) ^ ((((((npw2 ^ npb2) ^ b1) ^ b2) ^ b3) ^ b4) ^ (((pw2 ^ pb2) ^ ss) ^ es))
            == ((dw ^ db) ^ (((l1 ^ l2) ^ l3) ^ l4)) ^ ((((dpw ^ dpb) ^ bk) ^ ev) ^ es),
{
    assert(npw ^ npw2 == dw && npb ^ npb2 == db && a1 ^ b1 == l1 && a2 ^ b2 == l2 && a3 ^ b3 == l3 && a4 ^ b4 == l4
        && pw2 == pw ^ dpw && pb2 == pb ^ dpb && sv ^ ss == bk
        ==> (((pw ^ pb) ^ sv) ^ ev) ^ (((pw2 ^ pb2) ^ ss) ^ es) == (((dpw ^ dpb) ^ bk) ^ ev) ^ es
         && ((((((npw ^ npb) ^ a1) ^ a2) ^ a3) ^ a4) ^ (((pw ^ pb) ^ sv) ^ ev)) ^ ((((((npw2 ^ npb2) ^ b1) ^ b2) ^ b3) ^ b4) ^ (((pw2 ^ pb2) ^ ss) ^ es))
            == ((dw ^ db) ^ (((l1 ^ l2) ^ l3) ^ l4)) ^ ((((dpw ^ dpb) ^ bk) ^ ev) ^ es)) by(bit_vector);
}

/// total deltas of the two sides in closed form
pub proof fn lemma_totals(v: Pos, m: Move)
    requires board_wf(v), move_wf(v, m)
    ensures
        ({
            let c = v.turn; let oc = (1 - v.turn) as u32;
            let src = f_source_square(m.bits); let dst = f_target_square(m.bits); let promo = f_promotion_piece(m.bits);
            let piece = piece_at(side(v, c), sqm(src));
            let landed = if promo != 0 { promo } else { piece };
            let captured = piece_at(side(v, oc), capture_mask(v, piece, src, dst));
            let csq = cap_sq(v, m);
            let s5 = sel5(piece, key(6, src, c), key(5, src, c), key(4, src, c), key(3, src, c), key(2, src, c));
            let d5 = sel5(landed, key(6, dst, c), key(5, dst, c), key(4, dst, c), key(3, dst, c), key(2, dst, c));
            &&& me_total(v, m) == (if is_castle_rule(piece, src, dst) { ((s5 ^ d5) ^ key(4, castle_rook_from_sq(src, dst), c)) ^ key(4, castle_rook_to_sq(src, dst), c) } else { s5 ^ d5 })
            &&& op_total(v, m) == sel5(captured, key(6, csq, oc), key(5, csq, oc), key(4, csq, oc), key(3, csq, oc), key(2, csq, oc))
        }),
{
    let c = v.turn; let oc = (1 - v.turn) as u32;
    let src = f_source_square(m.bits); let dst = f_target_square(m.bits); let promo = f_promotion_piece(m.bits);
    let piece = piece_at(side(v, c), sqm(src));
    let landed = if promo != 0 { promo } else { piece };
    let captured = piece_at(side(v, oc), capture_mask(v, piece, src, dst));
    let csq = cap_sq(v, m);
    let (s6, s5_, s4, s3, s2) = (kif(6 == piece, key(6, src, c)), kif(5 == piece, key(5, src, c)), kif(4 == piece, key(4, src, c)), kif(3 == piece, key(3, src, c)), kif(2 == piece, key(2, src, c)));
    let (d6, d5_, d4, d3, d2) = (kif(6 == landed, key(6, dst, c)), kif(5 == landed, key(5, dst, c)), kif(4 == landed, key(4, dst, c)), kif(3 == landed, key(3, dst, c)), kif(2 == landed, key(2, dst, c)));
    let rf = key(4, castle_rook_from_sq(src, dst), c);
    let rt = key(4, castle_rook_to_sq(src, dst), c);
    lemma_regroup(s6, s5_, s4, s3, s2, d6, d5_, d4, d3, d2, rf, rt);
    lemma_select5(piece, key(6, src, c), key(5, src, c), key(4, src, c), key(3, src, c), key(2, src, c));
    lemma_select5(landed, key(6, dst, c), key(5, dst, c), key(4, dst, c), key(3, dst, c), key(2, dst, c));
    lemma_select5(captured, key(6, csq, oc), key(5, csq, oc), key(4, csq, oc), key(3, csq, oc), key(2, csq, oc));
}
