// ---- Zobrist hashing over the abstract view.  Key material is uninterpreted here; the facts about the real tables
//      (zero rows, bounds, non-zero and pairwise distinct keys, castle_hash mapping) are discharged by Kani (set zobrist) ----
pub uninterp spec fn key(piece: u64, sq: u32, color: u32) -> u64;
pub uninterp spec fn ep_key(file: u32) -> u64;
pub uninterp spec fn castle_key(side: u64, color: u32) -> u64;

/// xor of the keys of all set squares with index < n
pub open spec fn fold_keys(occ: u64, piece: u64, color: u32, n: u32) -> u64
    decreases n
{
    if n == 0 { 0 } else {
        fold_keys(occ, piece, color, (n - 1) as u32) ^ (if bit_set(occ, (n - 1) as u32) { key(piece, (n - 1) as u32, color) } else { 0 })
    }
}
pub open spec fn occ_hash(occ: u64, piece: u64, color: u32) -> u64 { fold_keys(occ, piece, color, 64) }

/// pawn hash: pawns of both colours, side to move, en-passant FILE — nothing else
pub open spec fn pawn_hash_c(w: Side, b: Side, turn: u32, ep: u32) -> u64 {
    let h = occ_hash(w.pawns, 1, 0) ^ occ_hash(b.pawns, 1, 1);
    let h2 = h ^ ((BLACK_TO_MOVE_HASH_SPEC() * ((1 - turn) as u64)) as u64);
    if ep != 0 { h2 ^ ep_key(ep % 8) } else { h2 }
}
/// position hash: placement, side to move, castling rights, en-passant file — no clocks, no history
pub open spec fn hash_c(w: Side, b: Side, turn: u32, ep: u32) -> u64 {
    let h0 = occ_hash(w.kings, 6, 0) ^ occ_hash(w.queens, 5, 0) ^ occ_hash(w.rooks, 4, 0) ^ occ_hash(w.bishops, 3, 0) ^ occ_hash(w.knights, 2, 0)
        ^ occ_hash(b.kings, 6, 1) ^ occ_hash(b.queens, 5, 1) ^ occ_hash(b.rooks, 4, 1) ^ occ_hash(b.bishops, 3, 1) ^ occ_hash(b.knights, 2, 1);
    let h1 = if w.qs { h0 ^ castle_key(5, 0) } else { h0 };
    let h2 = if w.ks { h1 ^ castle_key(6, 0) } else { h1 };
    let h3 = if b.qs { h2 ^ castle_key(5, 1) } else { h2 };
    let h4 = if b.ks { h3 ^ castle_key(6, 1) } else { h3 };
    h4 ^ pawn_hash_c(w, b, turn, ep)
}
pub open spec fn spec_pawn_hash(v: Pos) -> u64 { pawn_hash_c(v.w, v.b, v.turn, v.ep) }
pub open spec fn spec_hash(v: Pos) -> u64 { hash_c(v.w, v.b, v.turn, v.ep) }
/// what the hash is allowed to depend on
pub struct HashKey { pub w: Side, pub b: Side, pub turn: u32, pub ep_file: Option<u32> }
pub open spec fn hash_key_of(v: Pos) -> HashKey {
    HashKey { w: v.w, b: v.b, turn: v.turn, ep_file: if v.ep != 0 { Some(v.ep % 8) } else { None } }
}
/// same placement, side, rights and e.p. file => same hashes, whatever the clocks and however the position was reached
pub proof fn lemma_hash_depends_only_on_key(v1: Pos, v2: Pos)
    requires hash_key_of(v1) == hash_key_of(v2)
    ensures spec_hash(v1) == spec_hash(v2), spec_pawn_hash(v1) == spec_pawn_hash(v2)
{
}

/// "no piece" contributes nothing: rows 0 and 7 of the piece-square table are all zero (Kani: zobrist::accessors_in_bounds_and_zero_rows)
#[verifier::external_body]
pub proof fn axiom_key_zero(sq: u32, color: u32) ensures key(0, sq, color) == 0 {}

/// the hash delta of a packed move, written the way Bitboard::zobrist_xor computes it: (full delta, pawn delta)
pub open spec fn zx_spec(m: Move) -> (u64, u64) {
    let b = m.bits;
    let me = f_side_to_move(b);
    let op = (1 - me) as u32;
    let p0: u64 = 0 ^ BLACK_TO_MOVE_HASH_SPEC();
    let r1: u64 = if f_self_lost_king_side_castle(b) != 0 { 0 ^ castle_key(6, me) } else { 0 };
    let r2 = if f_self_lost_queen_side_castle(b) != 0 { r1 ^ castle_key(5, me) } else { r1 };
    let r3 = if f_opponent_lost_king_side_castle(b) != 0 { r2 ^ castle_key(6, op) } else { r2 };
    let r4 = if f_opponent_lost_queen_side_castle(b) != 0 { r3 ^ castle_key(5, op) } else { r3 };
    let p1 = if f_previous_en_passant_square(b) != 0 { p0 ^ ep_key(f_previous_en_passant_square(b) % 8) } else { p0 };
    let p2 = if f_next_en_passant_square(b) != 0 { p1 ^ ep_key(f_next_en_passant_square(b) % 8) } else { p1 };
    let moved = f_piece_moved(b);
    let promo = f_promotion_piece(b);
    let att = f_piece_attacked(b);
    let src = f_source_square(b);
    let dst = f_target_square(b);
    let (r, p): (u64, u64) =
        if f_castle_move(b) != 0 {
            (((((r4 ^ key(4, castle_rook_from_sq(src, dst), me)) ^ key(4, castle_rook_to_sq(src, dst), me)) ^ key(6, src, me)) ^ key(6, dst, me)), p2)
        } else if f_en_passant_attack(b) != 0 {
            (r4, ((p2 ^ key(1, src, me)) ^ key(1, dst, me)) ^ key(1, if me == 0 { (dst + 8) as u32 } else { (dst - 8) as u32 }, op))
        } else {
            let (ra, pa): (u64, u64) =
                if promo != 0 { (r4 ^ key(promo, dst, me), p2 ^ key(1, src, me)) }
                else if moved == 1 { (r4, (p2 ^ key(1, src, me)) ^ key(1, dst, me)) }
                else { ((r4 ^ key(moved, src, me)) ^ key(moved, dst, me), p2) };
            if att == 1 { (ra, pa ^ key(1, dst, op)) } else { (ra ^ key(att, dst, op), pa) }
        };
    (r ^ p, p)
}
