// ---- successor position and packed-move consistency (continues spec/rules_base.rs) ----
/// castling: the king steps two files from its original square (e1/e8) towards a rook
pub open spec fn is_castle_rule(piece: u64, src: u32, dst: u32) -> bool {
    piece == 6 && ((src == E1 && (dst == G1 || dst == C1)) || (src == E8 && (dst == G8 || dst == C8)))
}
pub open spec fn is_ep_rule(v: Pos, piece: u64, src: u32, dst: u32) -> bool {
    piece == 1 && v.ep != 0 && dst == v.ep && file_of(src) != file_of(dst)
}
/// square mask of the piece removed by the move (differs from the target only for en passant)
pub open spec fn capture_mask(v: Pos, piece: u64, src: u32, dst: u32) -> u64 {
    if is_ep_rule(v, piece, src, dst) { if v.turn == 0 { sqm(dst) << 8 } else { sqm(dst) >> 8 } } else { sqm(dst) }
}
pub open spec fn move_bits(x: u64, kind: u64, piece: u64, landed: u64, sm: u64, dm: u64) -> u64 {
    // the moved kind loses the source bit, the landed kind (== moved kind unless promoting) gains the target bit
    if kind == piece && kind == landed { (x & !sm) | dm } else if kind == piece { x & !sm } else if kind == landed { x | dm } else { x }
}
pub open spec fn cap_bits(x: u64, kind: u64, captured: u64, capm: u64) -> u64 {
    if kind == captured { x & !capm } else { x }
}
pub open spec fn next_ep_rule(piece: u64, src: u32, dst: u32) -> u32 {
    if piece == 1 && (dst == src + 16 || src == dst + 16) { ((src + dst) / 2) as u32 } else { 0 }
}

pub open spec fn castle_rook_from_sq(src: u32, dst: u32) -> u32 { if dst > src { (dst + 1) as u32 } else { (dst - 2) as u32 } }
pub open spec fn castle_rook_to_sq(src: u32, dst: u32) -> u32 { if dst > src { (dst - 1) as u32 } else { (dst + 1) as u32 } }
pub open spec fn castle_rook_from(src: u32, dst: u32) -> u64 { sqm(castle_rook_from_sq(src, dst)) }
pub open spec fn castle_rook_to(src: u32, dst: u32) -> u64 { sqm(castle_rook_to_sq(src, dst)) }

/// The successor position the rules of chess define for moving the piece on `src` to `dst` (promoting to `promo`, 0 = none).
pub open spec fn rules_succ(v: Pos, src: u32, dst: u32, promo: u64) -> Pos {
    let white = v.turn == 0;
    let me = side(v, v.turn);
    let op = side(v, (1 - v.turn) as u32);
    let sm = sqm(src);
    let dm = sqm(dst);
    let piece = piece_at(me, sm);
    let castle = is_castle_rule(piece, src, dst);
    let capm = capture_mask(v, piece, src, dst);
    let captured = piece_at(op, capm);
    let landed = if promo != 0 { promo } else { piece };
    let rooks0 = move_bits(me.rooks, 4, piece, landed, sm, dm);
    // castling rights: lost when the king or that rook leaves its home square, or something lands on the rook's home square
    let w_ks = v.w.ks && src != E1 && src != H1 && dst != H1;
    let w_qs = v.w.qs && src != E1 && src != A1 && dst != A1;
    let b_ks = v.b.ks && src != E8 && src != H8 && dst != H8;
    let b_qs = v.b.qs && src != E8 && src != A8 && dst != A8;
    let me1 = Side {
        pawns: move_bits(me.pawns, 1, piece, landed, sm, dm),
        knights: move_bits(me.knights, 2, piece, landed, sm, dm),
        bishops: move_bits(me.bishops, 3, piece, landed, sm, dm),
        // castling: the rook jumps over the king (king side: h->f, queen side: a->d)
        rooks: if castle { (rooks0 & !castle_rook_from(src, dst)) | castle_rook_to(src, dst) } else { rooks0 },
        queens: move_bits(me.queens, 5, piece, landed, sm, dm),
        kings: move_bits(me.kings, 6, piece, landed, sm, dm),
        qs: if white { w_qs } else { b_qs },
        ks: if white { w_ks } else { b_ks },
    };
    let op1 = Side {
        pawns: cap_bits(op.pawns, 1, captured, capm),
        knights: cap_bits(op.knights, 2, captured, capm),
        bishops: cap_bits(op.bishops, 3, captured, capm),
        rooks: cap_bits(op.rooks, 4, captured, capm),
        queens: cap_bits(op.queens, 5, captured, capm),
        kings: cap_bits(op.kings, 6, captured, capm),
        qs: if white { b_qs } else { w_qs },
        ks: if white { b_ks } else { w_ks },
    };
    Pos {
        w: if white { me1 } else { op1 },
        b: if white { op1 } else { me1 },
        turn: (1 - v.turn) as u32,
        ep: next_ep_rule(piece, src, dst),
        full: (v.full + v.turn) as u32,
        half: if piece == 1 || captured != 0 { 0 } else { (v.half + 1) as u32 },
    }
}

/// The packed `Move` `m` is a structurally consistent encoding of moving the piece on its source square
/// to its target square in position `v`: every packed field says what the rules say.
/// (Geometry of the individual piece kinds is not part of this predicate; it belongs to the generator, C01.)
pub open spec fn move_wf(v: Pos, m: Move) -> bool {
    let b = m.bits;
    let src = f_source_square(b);
    let dst = f_target_square(b);
    let promo = f_promotion_piece(b);
    let white = v.turn == 0;
    let me = side(v, v.turn);
    let op = side(v, (1 - v.turn) as u32);
    let piece = piece_at(me, sqm(src));
    let capm = capture_mask(v, piece, src, dst);
    let captured = piece_at(op, capm);
    let succ = rules_succ(v, src, dst, promo);
    let me1 = side(succ, v.turn);
    let op1 = side(succ, (1 - v.turn) as u32);
    let castle = is_castle_rule(piece, src, dst);
    &&& src < 64 && dst < 64 && src != dst
    &&& piece != 0 && f_piece_moved(b) == piece
    &&& all_occ(me) & sqm(dst) == 0
    &&& (promo == 0 || (2 <= promo && promo <= 5 && piece == 1))
    &&& (piece == 1 ==> ((promo != 0) <==> row_of(dst) == (if white { 0u32 } else { 7u32 })))
    &&& (piece == 1 ==> (if white { dst < src } else { dst > src }))      // pawns only move forward
    &&& (f_castle_move(b) != 0) == castle
    &&& (castle ==> {
            &&& src == (if white { E1 } else { E8 })
            &&& (if dst > src { me.ks } else { me.qs })
            &&& (all_occ(me) | all_occ(op)) & (if dst > src { sqm((src + 1) as u32) | sqm((src + 2) as u32) }
                                               else { sqm((src - 1) as u32) | sqm((src - 2) as u32) | sqm((src - 3) as u32) }) == 0
        })
    // a two-square pawn step starts on the pawn's home rank and passes over an empty square onto an empty square
    &&& (piece == 1 && (dst == src + 16 || src == dst + 16) ==> {
            &&& (if white { 48 <= src && src < 56 && src == dst + 16 } else { 8 <= src && src < 16 && dst == src + 16 })
            &&& (all_occ(me) | all_occ(op)) & (sqm(dst) | sqm(((src + dst) / 2) as u32)) == 0
        })
    &&& (f_en_passant_attack(b) != 0) == is_ep_rule(v, piece, src, dst)
    &&& f_piece_attacked(b) == captured
    &&& (f_halfmove_reset(b) != 0) == (piece == 1 || captured != 0)
    &&& f_next_en_passant_square(b) == succ.ep
    &&& (f_self_lost_king_side_castle(b) != 0) == (me.ks && !me1.ks)
    &&& (f_self_lost_queen_side_castle(b) != 0) == (me.qs && !me1.qs)
    &&& (f_opponent_lost_king_side_castle(b) != 0) == (op.ks && !op1.ks)
    &&& (f_opponent_lost_queen_side_castle(b) != 0) == (op.qs && !op1.qs)
    &&& f_previous_halfmove(b) == v.half
    &&& f_previous_en_passant_square(b) == v.ep
    &&& f_side_to_move(b) == v.turn
}
/// the move does not capture a king (true for every pseudo-legal move of a legal position: the side not to move is not in check)
pub open spec fn no_king_capture(v: Pos, m: Move) -> bool {
    f_piece_attacked(m.bits) != 6
}

/// what a generator must know about (src, dst, piece, flags, promotion, e.p. opportunity) before it may ask make_move to
/// encode the move: exactly the clauses of move_wf that talk about the request rather than about the packed result
pub open spec fn move_request_ok(v: Pos, src: u32, dst: u32, piece_active: u64, castle_flag: bool, ep_flag: bool, promo: u64, ep_opp: u32) -> bool {
    let white = v.turn == 0;
    let me = side(v, v.turn);
    let op = side(v, (1 - v.turn) as u32);
    let piece = piece_at(me, sqm(src));
    let castle = is_castle_rule(piece, src, dst);
    &&& src < 64 && dst < 64 && src != dst
    &&& piece != 0 && piece_active == piece
    &&& all_occ(me) & sqm(dst) == 0
    &&& (promo == 0 || (2 <= promo && promo <= 5 && piece == 1))
    &&& (piece == 1 ==> ((promo != 0) <==> row_of(dst) == (if white { 0u32 } else { 7u32 })))
    &&& (piece == 1 ==> (if white { dst < src } else { dst > src }))
    &&& castle_flag == castle
    &&& (castle ==> {
            &&& src == (if white { E1 } else { E8 })
            &&& (if dst > src { me.ks } else { me.qs })
            &&& (all_occ(me) | all_occ(op)) & (if dst > src { sqm((src + 1) as u32) | sqm((src + 2) as u32) }
                                               else { sqm((src - 1) as u32) | sqm((src - 2) as u32) | sqm((src - 3) as u32) }) == 0
        })
    &&& (piece == 1 && (dst == src + 16 || src == dst + 16) ==> {
            &&& (if white { 48 <= src && src < 56 && src == dst + 16 } else { 8 <= src && src < 16 && dst == src + 16 })
            &&& (all_occ(me) | all_occ(op)) & (sqm(dst) | sqm(((src + dst) / 2) as u32)) == 0
        })
    &&& ep_flag == is_ep_rule(v, piece, src, dst)
    &&& ep_opp == next_ep_rule(piece, src, dst)
    &&& piece_at(op, capture_mask(v, piece, src, dst)) != 6      // no king capture: the side not to move is not in check
}
/// make_move appended exactly one move — well-formed for v, with the requested squares and promotion — or, in
/// capture/promotion-only mode, nothing when the request is a quiet non-promoting move
pub open spec fn emitted_one_or_filtered(v: Pos, before: Seq<Move>, after: Seq<Move>, nq_only: bool, src: u32, dst: u32, promo: u64) -> bool {
    let me = side(v, v.turn);
    let op = side(v, (1 - v.turn) as u32);
    let piece = piece_at(me, sqm(src));
    let captured = piece_at(op, capture_mask(v, piece, src, dst));
    if nq_only && captured == 0 && promo == 0 {
        after == before
    } else {
        &&& after.len() == before.len() + 1
        &&& after.subrange(0, before.len() as int) == before
        &&& move_wf(v, after[before.len() as int]) && no_king_capture(v, after[before.len() as int])
        &&& f_source_square(after[before.len() as int].bits) == src
        &&& f_target_square(after[before.len() as int].bits) == dst
        &&& f_promotion_piece(after[before.len() as int].bits) == promo
    }
}
