// ---- abstract (uninterpreted) check predicate for units that only need "is the side to move in check" as a fact;
//      its definition by the rules and the proof that the code computes it live in unit attacks (C05) ----
pub open spec fn pos_kings_ok(v: Pos) -> bool { one_bit(v.w.kings) && one_bit(v.b.kings) }
pub uninterp spec fn in_check(v: Pos, color: u32) -> bool;
