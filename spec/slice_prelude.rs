// ---- prelude of the frame slices (tools/skeleton.py PRELUDE; keep in sync) ----
/// nondeterministic branch condition (every condition of the sliced function, including the stop flag and the clock)
#[verifier::external_body]
pub fn nondet() -> (r: bool) { unimplemented!() }

/// ASSUMPTION (data flow, listed): a move variable bound in a sliced function denotes a generated move of the position
/// current at its binding site: consistently encoded, capturing no king, with clocks inside the machine range
#[verifier::external_body]
pub fn havoc_move(board: &Bitboard) -> (m: Move)
    ensures move_wf(pos_of(*board), m), no_king_capture(pos_of(*board), m), clocks_ok(pos_of(*board))
{ unimplemented!() }

/// OVER-APPROXIMATION used only when a sliced function (or a helper it calls) assigns a new value to the board, which the
/// slicer cannot follow: afterwards the board is arbitrary.  A unit that contains a call of this function is DEGRADED:
/// a failing obligation is then reported as a violation only together with a failing input reproduced on the real code.
#[verifier::external_body]
pub fn havoc_board(board: &mut Bitboard) { unimplemented!() }

/// Bitboard::is_any_move_legal restores the board (frame part of its contract; body verified verbatim in unit uci_moves)
#[verifier::external_body]
pub fn frame_is_any_move_legal(board: &mut Bitboard)
    requires board_wf(pos_of(*old(board)))
    ensures pos_of(*final(board)) == pos_of(*old(board))
{ unimplemented!() }
