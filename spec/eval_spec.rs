// ---- static evaluation: piece-square sums as folds, vertical flip, colour symmetry ----
/// sum of the table values of all set squares with index < n
pub open spec fn fold_sum(occ: u64, t: Seq<i32>, n: u32) -> int
    decreases n
{
    if n == 0 { 0 } else { fold_sum(occ, t, (n - 1) as u32) + sq_term(occ, t, (n - 1) as u32) }
}
pub open spec fn sq_term(occ: u64, t: Seq<i32>, i: u32) -> int { if bit_set(occ, i) { t[i as int] as int } else { 0 } }
pub open spec fn table_bounded(t: Seq<i32>) -> bool { t.len() == 64 && forall|i: int| 0 <= i < 64 ==> -1000 <= #[trigger] t[i] <= 1000 }
/// vertical mirror of a square (rank 1 <-> rank 8) and of a bitboard (byte swap)
pub open spec fn mirror_sq(i: u32) -> u32 { ((7 - i / 8) * 8 + i % 8) as u32 }
pub open spec fn bswap(x: u64) -> u64 {
    ((x & 0xff) << 56) | ((x & 0xff00) << 40) | ((x & 0xff0000) << 24) | ((x & 0xff000000) << 8)
    | ((x >> 8) & 0xff000000) | ((x >> 24) & 0xff0000) | ((x >> 40) & 0xff00) | ((x >> 56) & 0xff)
}
/// table t2 is table t1 mirrored vertically with the sign flipped
pub open spec fn mirrored_neg(t1: Seq<i32>, t2: Seq<i32>) -> bool {
    t1.len() == 64 && t2.len() == 64 && forall|i: u32| i < 64 ==> #[trigger] t2[mirror_sq(i) as int] == -t1[i as int]
}
pub proof fn lemma_bswap_bit(x: u64, i: u32)
    requires i < 64
    ensures bit_set(bswap(x), mirror_sq(i)) == bit_set(x, i), mirror_sq(i) < 64, mirror_sq(mirror_sq(i)) == i
{
    let a = i as u64;
    let b = mirror_sq(i) as u64;
    assert(b == (7 - a / 8) * 8 + a % 8);
    assert((((((x & 0xff) << 56) | ((x & 0xff00) << 40) | ((x & 0xff0000) << 24) | ((x & 0xff000000) << 8)
        | ((x >> 8) & 0xff000000) | ((x >> 24) & 0xff0000) | ((x >> 40) & 0xff00) | ((x >> 56) & 0xff)) >> b) & 1) == ((x >> a) & 1)) by(bit_vector)
        requires a < 64, b == (7 - a / 8) * 8 + a % 8;
}

// ---- tables and popcount enter through assumed contracts, discharged by the Kani set `eval` on the real constants ----
pub uninterp spec fn wt(stage: int, piece: int) -> Seq<i32>;   // WHITE_TABLES[stage][piece]
pub uninterp spec fn bt(stage: int, piece: int) -> Seq<i32>;   // BLACK_TABLES[stage][piece]
pub uninterp spec fn popcount(x: u64) -> int;
/// Kani eval::black_tables_are_mirrored_white_tables, eval::tables_bounded
#[verifier::external_body]
pub proof fn axiom_tables(stage: int, piece: int)
    requires 0 <= stage < 3, 0 <= piece < 6
    ensures mirrored_neg(wt(stage, piece), bt(stage, piece)), table_bounded(wt(stage, piece)), table_bounded(bt(stage, piece))
{}
/// Kani eval::material_and_stage_are_colour_symmetric: popcount is invariant under the byte swap
#[verifier::external_body]
pub proof fn axiom_popcount_bswap(x: u64) ensures popcount(bswap(x)) == popcount(x), 0 <= popcount(x) <= 64, (popcount(x) == 0) == (x == 0) {}

pub open spec fn flip_side(s: Side) -> Side {
    Side { pawns: bswap(s.pawns), knights: bswap(s.knights), bishops: bswap(s.bishops), rooks: bswap(s.rooks), queens: bswap(s.queens), kings: bswap(s.kings), qs: s.qs, ks: s.ks }
}
/// mirror the position vertically and swap the colours of all pieces, the side to move and the castling rights
pub open spec fn flip_pos(v: Pos) -> Pos {
    Pos { w: flip_side(v.b), b: flip_side(v.w), turn: (1 - v.turn) as u32, ep: if v.ep == 0 { 0 } else { mirror_sq(v.ep) }, full: v.full, half: v.half }
}
pub open spec fn material(s: Side) -> int {
    900 * popcount(s.queens) + 500 * popcount(s.rooks) + 330 * popcount(s.bishops) + 320 * popcount(s.knights) + 100 * popcount(s.pawns)
}
/// game stage as SimpleHeuristic defines it (1 = MID, 2 = LATE)
pub open spec fn stage_of(w: Side, b: Side) -> int {
    let wq = w.queens != 0; let bq = b.queens != 0;
    let wm = popcount(w.knights | w.bishops) <= 1; let bm = popcount(b.knights | b.bishops) <= 1;
    if (!wq && !bq) || ((wq && wm) && !bq) || ((bq && bm) && !wq) || (wm && bm) { 2 } else { 1 }
}
pub open spec fn side_psv(s: Side, white: bool, stage: int) -> int {
    let tb = |p: int| if white { wt(stage, p) } else { bt(stage, p) };
    fold_sum(s.pawns, tb(0), 64) + fold_sum(s.knights, tb(1), 64) + fold_sum(s.bishops, tb(2), 64)
    + fold_sum(s.rooks, tb(3), 64) + fold_sum(s.queens, tb(4), 64) + fold_sum(s.kings, tb(5), 64)
}
/// the white-centric static evaluation of a non-terminal position
pub open spec fn eval_spec(v: Pos) -> int {
    let st = stage_of(v.w, v.b);
    material(v.w) - material(v.b) + side_psv(v.w, true, st) + side_psv(v.b, false, st)
}
