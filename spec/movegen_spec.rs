// ---- generator contracts: every generator appends exactly the moves of its "responsibility set", each once ----
pub open spec fn mv_src(m: Move) -> u32 { f_source_square(m.bits) }
pub open spec fn mv_dst(m: Move) -> u32 { f_target_square(m.bits) }
pub open spec fn mv_promo(m: Move) -> u64 { f_promotion_piece(m.bits) }
pub open spec fn same_key(a: Move, b: Move) -> bool { mv_src(a) == mv_src(b) && mv_dst(a) == mv_dst(b) && mv_promo(a) == mv_promo(b) }
pub open spec fn has_key(m: Move, s: u32, d: u32, p: u64) -> bool { mv_src(m) == s && mv_dst(m) == d && mv_promo(m) == p }

/// `after` is `before` plus, for exactly the (source, target, promotion) triples in `resp`, one well-formed move each:
/// nothing missing, nothing extra, no duplicates
pub open spec fn gen_ok(v: Pos, before: Seq<Move>, after: Seq<Move>, resp: spec_fn(u32, u32, u64) -> bool) -> bool {
    &&& after.len() >= before.len()
    &&& after.subrange(0, before.len() as int) == before
    &&& forall|i: int| before.len() <= i < after.len() ==>
            resp(mv_src(#[trigger] after[i]), mv_dst(after[i]), mv_promo(after[i])) && move_wf(v, after[i]) && no_king_capture(v, after[i])
    &&& forall|s: u32, d: u32, p: u64| #[trigger] resp(s, d, p) ==> exists|i: int| before.len() <= i < after.len() && #[trigger] has_key(after[i], s, d, p)
    &&& forall|i: int, j: int| before.len() <= i < j < after.len() ==> !#[trigger] same_key(after[i], after[j])
}
/// two generators run one after the other cover the union of their (disjoint) responsibilities
pub proof fn lemma_gen_compose(v: Pos, a: Seq<Move>, b: Seq<Move>, c: Seq<Move>, r1: spec_fn(u32, u32, u64) -> bool, r2: spec_fn(u32, u32, u64) -> bool,
                               r: spec_fn(u32, u32, u64) -> bool)
    requires
        gen_ok(v, a, b, r1), gen_ok(v, b, c, r2),
        forall|s: u32, d: u32, p: u64| #[trigger] r(s, d, p) == (r1(s, d, p) || r2(s, d, p)),
        forall|s: u32, d: u32, p: u64| !(#[trigger] r1(s, d, p) && r2(s, d, p)),
    ensures gen_ok(v, a, c, r)
{
    assert(c.subrange(0, a.len() as int) =~= a) by {
        assert forall|i: int| 0 <= i < a.len() implies c.subrange(0, a.len() as int)[i] == a[i] by {
            assert(c.subrange(0, b.len() as int)[i] == b[i]);
            assert(b.subrange(0, a.len() as int)[i] == a[i]);
        }
    }
    assert forall|i: int| b.len() > i >= 0 implies c[i] == b[i] by { assert(c.subrange(0, b.len() as int)[i] == b[i]); }
    assert forall|i: int| a.len() <= i < c.len() implies
        r(mv_src(#[trigger] c[i]), mv_dst(c[i]), mv_promo(c[i])) && move_wf(v, c[i]) && no_king_capture(v, c[i]) by {
        if i < b.len() { assert(c[i] == b[i]); }
    }
    assert forall|s: u32, d: u32, p: u64| #[trigger] r(s, d, p) implies exists|i: int| a.len() <= i < c.len() && #[trigger] has_key(c[i], s, d, p) by {
        if r1(s, d, p) {
            let i = choose|i: int| a.len() <= i < b.len() && #[trigger] has_key(b[i], s, d, p);
            assert(c[i] == b[i]);
            assert(has_key(c[i], s, d, p));
        } else {
            assert(r2(s, d, p));
            let i = choose|i: int| b.len() <= i < c.len() && #[trigger] has_key(c[i], s, d, p);
            assert(has_key(c[i], s, d, p));
        }
    }
    assert forall|i: int, j: int| a.len() <= i < j < c.len() implies !#[trigger] same_key(c[i], c[j]) by {
        if j < b.len() {
            assert(c[i] == b[i] && c[j] == b[j]);
        } else if i >= b.len() {
        } else {
            assert(c[i] == b[i]);
            assert(r1(mv_src(b[i]), mv_dst(b[i]), mv_promo(b[i])));
            assert(r2(mv_src(c[j]), mv_dst(c[j]), mv_promo(c[j])));
        }
    }
}
/// a generator that appends nothing covers the empty responsibility
pub proof fn lemma_gen_empty(v: Pos, a: Seq<Move>, r: spec_fn(u32, u32, u64) -> bool)
    requires forall|s: u32, d: u32, p: u64| !#[trigger] r(s, d, p)
    ensures gen_ok(v, a, a, r)
{
    assert(a.subrange(0, a.len() as int) =~= a);
}
/// responsibilities that agree pointwise are interchangeable
pub proof fn lemma_gen_ext(v: Pos, a: Seq<Move>, b: Seq<Move>, r1: spec_fn(u32, u32, u64) -> bool, r2: spec_fn(u32, u32, u64) -> bool)
    requires gen_ok(v, a, b, r1), forall|s: u32, d: u32, p: u64| #[trigger] r1(s, d, p) == #[trigger] r2(s, d, p)
    ensures gen_ok(v, a, b, r2)
{
    assert forall|s: u32, d: u32, p: u64| #[trigger] r2(s, d, p) implies exists|i: int| a.len() <= i < b.len() && #[trigger] has_key(b[i], s, d, p) by {
        assert(r1(s, d, p));
    }
}

/// the request make_move receives is a capture (non-pawn / non-e.p. form: something of the opponent stands on the target)
pub open spec fn is_capture_at(v: Pos, d: u32) -> bool { piece_at(side(v, (1 - v.turn) as u32), sqm(d)) != 0 }

/// make_move's postcondition, read as a one-element generator
pub proof fn lemma_emit_gen(v: Pos, before: Seq<Move>, after: Seq<Move>, nq: bool, src: u32, dst: u32, promo: u64, r: spec_fn(u32, u32, u64) -> bool)
    requires
        emitted_one_or_filtered(v, before, after, nq, src, dst, promo),
        forall|s: u32, d: u32, p: u64| #[trigger] r(s, d, p) == (s == src && d == dst && p == promo
            && !(nq && piece_at(side(v, (1 - v.turn) as u32), capture_mask(v, piece_at(side(v, v.turn), sqm(src)), src, dst)) == 0 && promo == 0)),
    ensures gen_ok(v, before, after, r)
{
    let me = side(v, v.turn);
    let op = side(v, (1 - v.turn) as u32);
    let captured = piece_at(op, capture_mask(v, piece_at(me, sqm(src)), src, dst));
    if nq && captured == 0 && promo == 0 {
        assert(before.subrange(0, before.len() as int) =~= before);
    } else {
        let m = after[before.len() as int];
        assert(has_key(m, src, dst, promo));
        assert(r(src, dst, promo));
    }
}
