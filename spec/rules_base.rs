// ---- the rules of chess over the abstract view (written from the property statements, not from the code) ----
// Square numbering (core/src/constants/square.rs, board/src/board/constants.rs): 0 = a8 … 7 = h8, 56 = a1 … 63 = h1;
// file = s % 8, row = s / 8 (row 0 = rank 8, row 7 = rank 1).  White pawns move towards row 0.

pub open spec fn sqm(s: u32) -> u64 { 1u64 << s }
pub open spec fn file_of(s: u32) -> u32 { s % 8 }
pub open spec fn row_of(s: u32) -> u32 { s / 8 }

pub open spec fn disjoint_side(s: Side) -> bool {
    &&& s.pawns & s.knights == 0 &&& s.pawns & s.bishops == 0 &&& s.pawns & s.rooks == 0 &&& s.pawns & s.queens == 0 &&& s.pawns & s.kings == 0
    &&& s.knights & s.bishops == 0 &&& s.knights & s.rooks == 0 &&& s.knights & s.queens == 0 &&& s.knights & s.kings == 0
    &&& s.bishops & s.rooks == 0 &&& s.bishops & s.queens == 0 &&& s.bishops & s.kings == 0
    &&& s.rooks & s.queens == 0 &&& s.rooks & s.kings == 0
    &&& s.queens & s.kings == 0
}
pub open spec fn one_bit(k: u64) -> bool { k != 0 && k & ((k - 1) as u64) == 0 }

/// Well-formed position: the "type invariant" of a chess position (structural part).  Every clause is preserved by
/// `rules_succ` for moves satisfying `move_wf` that do not capture a king (lemma_wf_preserved).
pub open spec fn board_wf(v: Pos) -> bool {
    &&& v.turn <= 1
    &&& disjoint_side(v.w) &&& disjoint_side(v.b) &&& all_occ(v.w) & all_occ(v.b) == 0
    &&& one_bit(v.w.kings) &&& one_bit(v.b.kings)
    &&& (v.w.pawns | v.b.pawns) & (RANK_1_OCCUPANCY | RANK_8_OCCUPANCY) == 0
    &&& (v.w.ks ==> v.w.kings & E1_MASK != 0 && v.w.rooks & H1_MASK != 0)
    &&& (v.w.qs ==> v.w.kings & E1_MASK != 0 && v.w.rooks & A1_MASK != 0)
    &&& (v.b.ks ==> v.b.kings & E8_MASK != 0 && v.b.rooks & H8_MASK != 0)
    &&& (v.b.qs ==> v.b.kings & E8_MASK != 0 && v.b.rooks & A8_MASK != 0)
    &&& ep_wf(v)
}
/// machine-arithmetic side conditions (assumptions, listed in the evidence): the half-move clock fits the 12-bit undo
/// field of `Move` (the property's own quantifier, C03: 0..4095) and the u32 full-move counter does not wrap
pub open spec fn clocks_ok(v: Pos) -> bool { v.half < 4096 && v.full < 0xffff_ffff }
pub open spec fn ep_wf(v: Pos) -> bool {
    ||| v.ep == 0
    ||| (v.turn == 0 && 16 <= v.ep && v.ep < 24 && v.b.pawns & sqm((v.ep + 8) as u32) != 0
         && (all_occ(v.w) | all_occ(v.b)) & (sqm(v.ep) | sqm((v.ep - 8) as u32)) == 0)
    ||| (v.turn == 1 && 40 <= v.ep && v.ep < 48 && v.w.pawns & sqm((v.ep - 8) as u32) != 0
         && (all_occ(v.w) | all_occ(v.b)) & (sqm(v.ep) | sqm((v.ep + 8) as u32)) == 0)
}

