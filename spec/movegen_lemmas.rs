// ---- helper lemmas for the generator proofs ----
pub proof fn lemma_bit_and_mask(x: u64, s: u32)
    requires s < 64
    ensures bit_set(x, s) == (x & sqm(s) != 0), bit_set(sqm(s), s), forall|t: u32| t < 64 && t != s ==> !#[trigger] bit_set(sqm(s), t)
{
    let a = s as u64;
    assert((((x >> a) & 1) == 1) == (x & (1u64 << a) != 0)) by(bit_vector) requires a < 64;
    assert((((1u64 << a) >> a) & 1) == 1) by(bit_vector) requires a < 64;
    assert forall|t: u32| t < 64 && t != s implies !#[trigger] bit_set(sqm(s), t) by {
        let b = t as u64;
        assert((((1u64 << a) >> b) & 1) == 0) by(bit_vector) requires a < 64, b < 64, a != b;
    }
}
pub proof fn lemma_bit_andnot(x: u64, y: u64)
    ensures forall|t: u32| t < 64 ==> (#[trigger] bit_set(x & !y, t) == (bit_set(x, t) && !bit_set(y, t)))
{
    assert forall|t: u32| t < 64 implies (#[trigger] bit_set(x & !y, t) == (bit_set(x, t) && !bit_set(y, t))) by {
        let b = t as u64;
        assert(((((x & !y) >> b) & 1) == 1) == ((((x >> b) & 1) == 1) && !(((y >> b) & 1) == 1))) by(bit_vector) requires b < 64;
    }
}
pub proof fn lemma_bit_and(x: u64, y: u64)
    ensures forall|t: u32| t < 64 ==> (#[trigger] bit_set(x & y, t) == (bit_set(x, t) && bit_set(y, t)))
{
    assert forall|t: u32| t < 64 implies (#[trigger] bit_set(x & y, t) == (bit_set(x, t) && bit_set(y, t))) by {
        let b = t as u64;
        assert(((((x & y) >> b) & 1) == 1) == ((((x >> b) & 1) == 1) && (((y >> b) & 1) == 1))) by(bit_vector) requires b < 64;
    }
}
pub proof fn lemma_bit_or(x: u64, y: u64)
    ensures forall|t: u32| t < 64 ==> (#[trigger] bit_set(x | y, t) == (bit_set(x, t) || bit_set(y, t)))
{
    assert forall|t: u32| t < 64 implies (#[trigger] bit_set(x | y, t) == (bit_set(x, t) || bit_set(y, t))) by {
        let b = t as u64;
        assert(((((x | y) >> b) & 1) == 1) == ((((x >> b) & 1) == 1) || (((y >> b) & 1) == 1))) by(bit_vector) requires b < 64;
    }
}
pub proof fn lemma_bit_zero()
    ensures forall|t: u32| t < 64 ==> !#[trigger] bit_set(0u64, t)
{
    assert forall|t: u32| t < 64 implies !#[trigger] bit_set(0u64, t) by { let b = t as u64; assert(((0u64 >> b) & 1) == 0) by(bit_vector) requires b < 64; }
}
/// all_occ as a bit predicate
pub proof fn lemma_all_occ_bits(p: Side)
    ensures forall|t: u32| t < 64 ==> (#[trigger] bit_set(all_occ(p), t) ==
        (bit_set(p.kings, t) || bit_set(p.queens, t) || bit_set(p.rooks, t) || bit_set(p.bishops, t) || bit_set(p.knights, t) || bit_set(p.pawns, t)))
{
    lemma_bit_or(p.kings, p.queens);
    lemma_bit_or(p.kings | p.queens, p.rooks);
    lemma_bit_or(p.kings | p.queens | p.rooks, p.bishops);
    lemma_bit_or(p.kings | p.queens | p.rooks | p.bishops, p.knights);
    lemma_bit_or(p.kings | p.queens | p.rooks | p.bishops | p.knights, p.pawns);
}
pub proof fn lemma_disjoint_bits(a: u64, b: u64, s: u32)
    requires a & b == 0, s < 64
    ensures !(bit_set(a, s) && bit_set(b, s))
{
    let t = s as u64;
    assert(!((((a >> t) & 1) == 1) && (((b >> t) & 1) == 1))) by(bit_vector) requires a & b == 0, t < 64;
}
/// with pairwise disjoint boards, the kind found on a square is the kind whose board has that bit
pub proof fn lemma_piece_at_of(p: Side, piece: u64, s: u32)
    requires disjoint_side(p), s < 64, 1 <= piece <= 6, bit_set(occ(p, piece), s)
    ensures piece_at(p, sqm(s)) == piece
{
    lemma_bit_and_mask(p.pawns, s); lemma_bit_and_mask(p.knights, s); lemma_bit_and_mask(p.bishops, s);
    lemma_bit_and_mask(p.rooks, s); lemma_bit_and_mask(p.queens, s); lemma_bit_and_mask(p.kings, s);
    let (a, b, c, d, e, f) = (p.pawns, p.knights, p.bishops, p.rooks, p.queens, p.kings);
    lemma_disjoint_bits(a, b, s); lemma_disjoint_bits(a, c, s); lemma_disjoint_bits(a, d, s); lemma_disjoint_bits(a, e, s); lemma_disjoint_bits(a, f, s);
    lemma_disjoint_bits(b, c, s); lemma_disjoint_bits(b, d, s); lemma_disjoint_bits(b, e, s); lemma_disjoint_bits(b, f, s);
    lemma_disjoint_bits(c, d, s); lemma_disjoint_bits(c, e, s); lemma_disjoint_bits(c, f, s);
    lemma_disjoint_bits(d, e, s); lemma_disjoint_bits(d, f, s); lemma_disjoint_bits(e, f, s);
}
/// the only set bit of a one-bit board is its trailing-zero index
pub proof fn lemma_one_bit_index(k: u64, s: u32)
    requires one_bit(k), s < 64, bit_set(k, s)
    ensures s == u64_trailing_zeros(k)
{
    axiom_u64_trailing_zeros(k);
    let t = u64_trailing_zeros(k) as u64;
    let a = s as u64;
    assert(a == t) by(bit_vector) requires a < 64, t < 64, k != 0, k & ((k - 1) as u64) == 0, ((k >> a) & 1) == 1, ((k >> t) & 1) == 1;
}
/// bit semantics of `x & !y`, for all operands (so that it applies to unnamed intermediate values)
pub proof fn lemma_bit_andnot_all()
    ensures forall|x: u64, y: u64, t: u32| t < 64 ==> (#[trigger] bit_set(x & !y, t) == (bit_set(x, t) && !bit_set(y, t)))
{
    assert forall|x: u64, y: u64, t: u32| t < 64 implies (#[trigger] bit_set(x & !y, t) == (bit_set(x, t) && !bit_set(y, t))) by {
        lemma_bit_andnot(x, y);
    }
}
/// bit semantics of `&` and `|`, for all operands (applies to unnamed intermediate values)
pub proof fn lemma_bit_ops_all()
    ensures
        forall|x: u64, y: u64, t: u32| t < 64 ==> (#[trigger] bit_set(x & y, t) == (bit_set(x, t) && bit_set(y, t))),
        forall|x: u64, y: u64, t: u32| t < 64 ==> (#[trigger] bit_set(x | y, t) == (bit_set(x, t) || bit_set(y, t))),
{
    assert forall|x: u64, y: u64, t: u32| t < 64 implies (#[trigger] bit_set(x & y, t) == (bit_set(x, t) && bit_set(y, t))) by { lemma_bit_and(x, y); }
    assert forall|x: u64, y: u64, t: u32| t < 64 implies (#[trigger] bit_set(x | y, t) == (bit_set(x, t) || bit_set(y, t))) by { lemma_bit_or(x, y); }
}
/// the e.p. mask of pawn_attacks: the e.p. square, unless it is "no square" (= a8, on rank 8)
pub proof fn lemma_ep_mask_bits(ep: u32)
    requires ep < 64
    ensures forall|t: u32| t < 64 ==> (#[trigger] bit_set((1u64 << ep) & !(RANK_1_OCCUPANCY | RANK_8_OCCUPANCY), t) == (t == ep && 8 <= ep && ep < 56))
{
    assert(RANK_8_OCCUPANCY == 0xff) by(compute);
    assert(RANK_1_OCCUPANCY == 0xff00000000000000) by(compute);
    assert forall|t: u32| t < 64 implies (#[trigger] bit_set((1u64 << ep) & !(RANK_1_OCCUPANCY | RANK_8_OCCUPANCY), t) == (t == ep && 8 <= ep && ep < 56)) by {
        let (a, b) = (ep as u64, t as u64);
        assert((((((1u64 << a) & !(0xff00000000000000u64 | 0xffu64)) >> b) & 1) == 1) == (b == a && 8 <= a && a < 56)) by(bit_vector) requires a < 64, b < 64;
    }
}
