// ---- attack geometry by the rules (attacker -> target), and "in check" ----
pub open spec fn sq_row(s: u32) -> int { (s / 8) as int }
pub open spec fn sq_file(s: u32) -> int { (s % 8) as int }
pub open spec fn iabs(x: int) -> int { if x < 0 { -x } else { x } }
pub open spec fn strictly_between(lo_hi_a: int, m: int, lo_hi_b: int) -> bool {
    (lo_hi_a < m && m < lo_hi_b) || (lo_hi_b < m && m < lo_hi_a)
}
/// m lies strictly between a and b on their common rank or file
pub open spec fn between_straight(a: u32, m: u32, b: u32) -> bool {
    (sq_row(a) == sq_row(b) && sq_row(m) == sq_row(a) && strictly_between(sq_file(a), sq_file(m), sq_file(b)))
    || (sq_file(a) == sq_file(b) && sq_file(m) == sq_file(a) && strictly_between(sq_row(a), sq_row(m), sq_row(b)))
}
/// m lies strictly between a and b on their common diagonal
pub open spec fn between_diagonal(a: u32, m: u32, b: u32) -> bool {
    iabs(sq_row(m) - sq_row(a)) == iabs(sq_file(m) - sq_file(a)) && iabs(sq_row(m) - sq_row(b)) == iabs(sq_file(m) - sq_file(b))
    && strictly_between(sq_row(a), sq_row(m), sq_row(b)) && strictly_between(sq_file(a), sq_file(m), sq_file(b))
}
/// a rook (or queen) on a attacks b: same rank or file, nothing in between (whatever stands on b itself)
pub open spec fn rook_reach(a: u32, b: u32, occ: u64) -> bool {
    a != b && (sq_row(a) == sq_row(b) || sq_file(a) == sq_file(b))
    && forall|m: u32| m < 64 && #[trigger] between_straight(a, m, b) ==> !bit_set(occ, m)
}
pub open spec fn bishop_reach(a: u32, b: u32, occ: u64) -> bool {
    a != b && iabs(sq_row(a) - sq_row(b)) == iabs(sq_file(a) - sq_file(b))
    && forall|m: u32| m < 64 && #[trigger] between_diagonal(a, m, b) ==> !bit_set(occ, m)
}
pub open spec fn knight_step(a: u32, b: u32) -> bool {
    (iabs(sq_row(a) - sq_row(b)) == 1 && iabs(sq_file(a) - sq_file(b)) == 2) || (iabs(sq_row(a) - sq_row(b)) == 2 && iabs(sq_file(a) - sq_file(b)) == 1)
}
pub open spec fn king_step(a: u32, b: u32) -> bool {
    a != b && iabs(sq_row(a) - sq_row(b)) <= 1 && iabs(sq_file(a) - sq_file(b)) <= 1
}
/// a pawn of `color` standing on a attacks b (white pawns attack towards row 0 = rank 8)
pub open spec fn pawn_att(color: u32, a: u32, b: u32) -> bool {
    iabs(sq_file(a) - sq_file(b)) == 1 && (if color == 0 { sq_row(b) == sq_row(a) - 1 } else { sq_row(b) == sq_row(a) + 1 })
}
/// some piece of side `by` (of colour by_color) attacks square sq, given the full occupancy
pub open spec fn sq_attacked(by: Side, by_color: u32, occ: u64, sq: u32) -> bool {
    exists|t: u32| t < 64 && #[trigger] attacks_from(by, by_color, occ, t, sq)
}
pub open spec fn attacks_from(by: Side, by_color: u32, occ: u64, t: u32, sq: u32) -> bool {
    ||| (bit_set(by.rooks | by.queens, t) && rook_reach(t, sq, occ))
    ||| (bit_set(by.bishops | by.queens, t) && bishop_reach(t, sq, occ))
    ||| (bit_set(by.knights, t) && knight_step(t, sq))
    ||| (bit_set(by.pawns, t) && pawn_att(by_color, t, sq))
    ||| (bit_set(by.kings, t) && king_step(t, sq))
}
pub open spec fn pos_kings_ok(v: Pos) -> bool { one_bit(v.w.kings) && one_bit(v.b.kings) }
pub open spec fn king_sq(s: Side) -> u32 { u64_trailing_zeros(s.kings) }
/// the king of `color` is attacked by a piece of the other colour
pub open spec fn in_check(v: Pos, color: u32) -> bool {
    sq_attacked(side(v, (1 - color) as u32), (1 - color) as u32, all_occ(v.w) | all_occ(v.b), king_sq(side(v, color)))
}
