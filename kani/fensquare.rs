// harness module `fensquare` (dependency of C01/C02 "from any legal FEN": the e.p. field of a FEN): the real
// square_shift_from_fen_unchecked on every two-character square name a1..h8 (complete over that finite domain, loop-free):
// the shift is 8 * (8 - rank) + file.  Appended to board/src/board/constants.rs.
#[kani::proof]
#[kani::unwind(4)]
fn square_shift_from_fen_is_exact_on_square_names() {
    let f: u8 = kani::any();
    let r: u8 = kani::any();
    kani::assume((b'a'..=b'h').contains(&f) && (b'1'..=b'8').contains(&r));
    let bytes = [f, r];
    let s = unsafe { std::str::from_utf8_unchecked(&bytes) };
    kani::cover!(f == b'h' && r == b'6');
    let shift = square_shift_from_fen_unchecked(s);
    assert!(shift == (8 - (r - b'0') as u32) * 8 + (f - b'a') as u32);
    assert!(shift < 64);
}
