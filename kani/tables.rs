// harness module `tables` (C04): precomputed attack tables equal ray/step attacks for every square and occupancy.
// (the oracle ray_ref / step_ref of kani/oracle.rs precedes this text inside `mod verif_kani`)
#[kani::proof]
#[kani::unwind(9)]
fn king_table() {
    let sq: u32 = kani::any();
    kani::assume(sq < 64);
    kani::cover!(sq == 63);
    assert_eq!(unsafe { KING_NONMAGICS.get_attacks(sq) }, step_ref(sq, &KING_STEPS));
}
#[kani::proof]
#[kani::unwind(9)]
fn knight_table() {
    let sq: u32 = kani::any();
    kani::assume(sq < 64);
    kani::cover!(sq == 63);
    assert_eq!(unsafe { KNIGHT_NONMAGICS.get_attacks(sq) }, step_ref(sq, &KNIGHT_STEPS));
}
#[kani::proof]
#[kani::unwind(9)]
fn white_pawn_table() {
    let sq: u32 = kani::any();
    kani::assume(sq < 64);
    kani::cover!(sq == 63);
    assert_eq!(unsafe { WHITE_PAWN_NONMAGICS.get_attacks(sq) }, step_ref(sq, &WHITE_PAWN_STEPS));
}
#[kani::proof]
#[kani::unwind(9)]
fn black_pawn_table() {
    let sq: u32 = kani::any();
    kani::assume(sq < 64);
    kani::cover!(sq == 63);
    assert_eq!(unsafe { BLACK_PAWN_NONMAGICS.get_attacks(sq) }, step_ref(sq, &BLACK_PAWN_STEPS));
}
