// harness module `piece` (C15 kernel): Piece::from_char over ALL chars (complete, loop-free): exactly the twelve piece letters
// are accepted, either case, and each is decoded to the piece whose own letter it is.  Appended to core/src/constants/piece.rs.
#[kani::proof]
fn piece_from_char_total_and_exact() {
    let c: char = kani::any();
    kani::cover!(c == 'q');
    let r = Piece::from_char(c);
    let lower = c.to_ascii_lowercase();
    let valid = matches!(lower, 'k' | 'q' | 'r' | 'b' | 'n' | 'p') && c.is_ascii();
    match r {
        Some(p) => {
            assert!(valid);
            assert!(p.fen.to_ascii_lowercase() == lower);
            let idx = match lower { 'p' => 1, 'n' => 2, 'b' => 3, 'r' => 4, 'q' => 5, _ => 6 };
            assert!(p.index == idx);
        }
        None => assert!(!valid),
    }
}
