// harness module `ucimove` (C15 kernel, BOUNDED): UciMove::from_str over every ASCII string of at most 5 bytes:
// never panics, accepts exactly <file><rank><file><rank>[piece letter] and decodes it exactly.  Appended to uci/src/uci.rs.
#[kani::proof]
#[kani::unwind(8)]
fn uci_move_from_str_ascii_le5() {
    let bytes: [u8; 5] = kani::any();
    let len: usize = kani::any();
    kani::assume(len <= 5);
    kani::assume(bytes[0] < 128 && bytes[1] < 128 && bytes[2] < 128 && bytes[3] < 128 && bytes[4] < 128);
    let s = unsafe { std::str::from_utf8_unchecked(&bytes[..len]) };
    kani::cover!(len == 5);
    let r = UciMove::from_str(s);        // must not panic
    let sq_ok = |f: u8, r: u8| (b'a'..=b'h').contains(&f) && (b'1'..=b'8').contains(&r);
    let piece_ok = |c: u8| matches!(c, b'k' | b'q' | b'r' | b'b' | b'n' | b'p' | b'K' | b'Q' | b'R' | b'B' | b'N' | b'P');
    let well_formed = len >= 4 && sq_ok(bytes[0], bytes[1]) && sq_ok(bytes[2], bytes[3]) && (len == 4 || piece_ok(bytes[4]));
    match r {
        Ok(m) => {
            assert!(well_formed);
            assert!(m.source.fen.as_bytes()[0] == bytes[0] && m.source.fen.as_bytes()[1] == bytes[1]);
            assert!(m.target.fen.as_bytes()[0] == bytes[2] && m.target.fen.as_bytes()[1] == bytes[3]);
            assert!(m.promote_to.is_some() == (len == 5));
            if let Some(p) = m.promote_to { assert!(p.fen.to_ascii_lowercase() == (bytes[4] as char).to_ascii_lowercase()); }
        }
        Err(_) => assert!(!well_formed),
    }
}

