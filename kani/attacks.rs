// harness module `attacks`: the executable oracle of kani/oracle.rs (against which check C04 proves the real tables) computes
// exactly the quantified attack predicates of spec/attack.rs (rook_reach, bishop_reach, knight_step, king_step, pawn_att),
// which are the contracts the Verus units movegen (C01) and attacks (C05) assume for the table lookups.
// The predicate text is compiled from spec/attack.rs by tools/spec2rust.py (bounded quantifiers become loops over 0..64).
fn u64_trailing_zeros(x: u64) -> u32 { x.trailing_zeros() }

#[kani::proof]
#[kani::unwind(66)]
fn oracle_rook_is_rook_reach() {
    let sq: u32 = kani::any();
    let t: u32 = kani::any();
    let occ: u64 = kani::any();
    kani::assume(sq < 64 && t < 64);
    kani::cover!(sq == 27 && t == 31);
    assert!(bit_set(ray_ref(sq, occ, &ROOK_DIRS), t) == rook_reach(sq, t, occ));
}
#[kani::proof]
#[kani::unwind(66)]
fn oracle_bishop_is_bishop_reach() {
    let sq: u32 = kani::any();
    let t: u32 = kani::any();
    let occ: u64 = kani::any();
    kani::assume(sq < 64 && t < 64);
    kani::cover!(sq == 27 && t == 54);
    assert!(bit_set(ray_ref(sq, occ, &BISHOP_DIRS), t) == bishop_reach(sq, t, occ));
}
#[kani::proof]
#[kani::unwind(10)]
fn oracle_steps_are_step_predicates() {
    let sq: u32 = kani::any();
    let t: u32 = kani::any();
    kani::assume(sq < 64 && t < 64);
    assert!(bit_set(step_ref(sq, &KNIGHT_STEPS), t) == knight_step(sq, t));
    assert!(bit_set(step_ref(sq, &KING_STEPS), t) == king_step(sq, t));
    assert!(bit_set(step_ref(sq, &WHITE_PAWN_STEPS), t) == pawn_att(0, sq, t));
    assert!(bit_set(step_ref(sq, &BLACK_PAWN_STEPS), t) == pawn_att(1, sq, t));
}
