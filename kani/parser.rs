// harness module `parser` (C15, BOUNDED): the end of a `searchmoves` list.  CommandParser::parse_moves_until_one_of_or_end on a
// queue holding ONE token drawn from the twelve go keywords and a few operands: every go keyword ends the list (nothing is
// consumed), a move is consumed, anything else is rejected.  Appended to uci/src/uci/parser.rs.
const VOCAB: [&str; 16] = ["searchmoves", "ponder", "wtime", "btime", "winc", "binc", "movestogo", "depth", "nodes", "mate", "movetime", "infinite",
                           "e2e4", "a7a8q", "100", "xyz"];

#[kani::proof]
#[kani::unwind(16)]
fn searchmoves_list_stops_at_every_go_keyword_len1() {
    let t: usize = kani::any();
    kani::assume(t < VOCAB.len());
    let mut q: VecDeque<&str> = VecDeque::new();
    q.push_back(VOCAB[t]);
    let p = CommandParser { queue: RefCell::new(q) };
    let r = p.parse_moves_until_one_of_or_end(&CommandParser::GO_TOKENS);
    if t < 12 {
        assert!(matches!(&r, Ok(v) if v.is_empty()));
        assert!(p.queue.borrow().len() == 1);
    } else if t < 14 {
        assert!(matches!(&r, Ok(v) if v.len() == 1));
        assert!(p.queue.borrow().len() == 0);
    } else {
        assert!(r.is_err());
    }
}
