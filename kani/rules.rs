// harness module `rules`: facts about the rules specification itself (the text of spec/*.rs compiled as Rust by
// tools/spec2rust.py precedes this file inside `mod verif_kani`).  Loop-free, full symbolic domain => complete.

fn any_side() -> Side {
    Side { pawns: kani::any(), knights: kani::any(), bishops: kani::any(), rooks: kani::any(), queens: kani::any(), kings: kani::any(),
           qs: kani::any(), ks: kani::any() }
}
fn any_pos() -> Pos {
    Pos { w: any_side(), b: any_side(), turn: kani::any(), ep: kani::any(), full: kani::any(), half: kani::any() }
}

/// lemma_wf_preserved: board_wf is an invariant of play
#[kani::proof]
fn wf_preserved() {
    let v = any_pos();
    kani::assume(board_wf(v));
    kani::assume(clocks_ok(v));
    let m = Move { bits: kani::any(), mvvlva: 0 };
    kani::assume(move_wf(v, m));
    kani::assume(no_king_capture(v, m));
    kani::cover!(true, "assumptions are satisfiable");
    kani::cover!(f_castle_move(m.bits) != 0, "a castling move is reachable");
    kani::cover!(f_en_passant_attack(m.bits) != 0, "an en-passant capture is reachable");
    kani::cover!(f_promotion_piece(m.bits) != 0, "a promotion is reachable");
    let s = rules_succ(v, f_source_square(m.bits), f_target_square(m.bits), f_promotion_piece(m.bits));
    assert!(board_wf(s));
}
