// harness module `rules`: facts about the rules specification itself (the text of spec/*.rs compiled as Rust by
// tools/spec2rust.py precedes this file inside `mod verif_kani`).  Loop-free, full symbolic domain => complete.

fn any_side() -> Side {
    Side { pawns: kani::any(), knights: kani::any(), bishops: kani::any(), rooks: kani::any(), queens: kani::any(), kings: kani::any(),
           qs: kani::any(), ks: kani::any() }
}
fn any_pos() -> Pos {
    Pos { w: any_side(), b: any_side(), turn: kani::any(), ep: kani::any(), full: kani::any(), half: kani::any() }
}

/// lemma_wf_preserved: board_wf is an invariant of play
#[kani::proof]
fn wf_preserved() {
    let v = any_pos();
    kani::assume(board_wf(v));
    kani::assume(clocks_ok(v));
    let m = Move { bits: kani::any(), mvvlva: 0 };
    kani::assume(move_wf(v, m));
    kani::assume(no_king_capture(v, m));
    kani::cover!(true, "assumptions are satisfiable");
    kani::cover!(f_castle_move(m.bits) != 0, "a castling move is reachable");
    kani::cover!(f_en_passant_attack(m.bits) != 0, "an en-passant capture is reachable");
    kani::cover!(f_promotion_piece(m.bits) != 0, "a promotion is reachable");
    let s = rules_succ(v, f_source_square(m.bits), f_target_square(m.bits), f_promotion_piece(m.bits));
    assert!(board_wf(s));
}

// ---- the real make_move / make / unmake against the rules specification: full symbolic domain, loop-free => complete.
//      These pair the Verus contracts of units movegen / board_make: same predicate text, independent back end,
//      robust against restructuring of the function bodies, and a source of concrete counterexamples. ----
fn to_side(s: Side) -> PlayerState {
    PlayerState { occupancy: [0, s.pawns, s.knights, s.bishops, s.rooks, s.queens, s.kings], queen_side_castle: s.qs, king_side_castle: s.ks }
}
fn to_board(v: Pos) -> Bitboard {
    Bitboard { white: to_side(v.w), black: to_side(v.b), turn: v.turn, en_passant_square_shift: v.ep, fullmove_clock: v.full, halfmove_clock: v.half }
}
fn side_view(p: &PlayerState) -> Side {
    Side { pawns: p.pawns(), knights: p.knights(), bishops: p.bishops(), rooks: p.rooks(), queens: p.queens(), kings: p.kings(),
           qs: p.queen_side_castle, ks: p.king_side_castle }
}
fn board_view(b: &Bitboard) -> Pos {
    Pos { w: side_view(&b.white), b: side_view(&b.black), turn: b.turn, ep: b.en_passant_square_shift, full: b.fullmove_clock, half: b.halfmove_clock }
}

/// make_move encodes a consistent request as a move satisfying move_wf (or drops it in capture/promotion-only mode)
#[kani::proof]
fn make_move_emits_wf() {
    let v = any_pos();
    kani::assume(board_wf(v));
    kani::assume(clocks_ok(v));
    let src: u32 = kani::any();
    let dst: u32 = kani::any();
    let piece: u64 = kani::any();
    let castle: bool = kani::any();
    let ep: bool = kani::any();
    let promo: u64 = kani::any();
    let ep_opp: u32 = kani::any();
    let nq: bool = kani::any();
    kani::assume(src < 64 && dst < 64 && piece < 7 && promo < 7 && ep_opp < 64);
    kani::assume(move_request_ok(v, src, dst, piece, castle, ep, promo, ep_opp));
    kani::cover!(castle, "a castling request is reachable");
    kani::cover!(ep, "an en-passant request is reachable");
    kani::cover!(promo != 0, "a promotion request is reachable");
    let board = to_board(v);
    let mut buf: Vec<Move> = Vec::new();
    board.make_move(&mut buf, nq, src, dst, piece, if castle { CASTLE_MOVE_TRUE_MASK } else { CASTLE_MOVE_FALSE_MASK },
                    if ep { EN_PASSANT_ATTACK_TRUE_MASK } else { EN_PASSANT_ATTACK_FALSE_MASK }, promo, ep_opp);
    let me = side(v, v.turn);
    let op = side(v, 1 - v.turn);
    let captured = piece_at(op, capture_mask(v, piece_at(me, sqm(src)), src, dst));
    if nq && captured == 0 && promo == 0 {
        assert!(buf.is_empty());
    } else {
        assert!(buf.len() == 1);
        let m = buf[0];
        assert!(move_wf(v, m));
        assert!(f_source_square(m.bits) == src && f_target_square(m.bits) == dst && f_promotion_piece(m.bits) == promo);
    }
}

/// make produces the rules' successor; unmake restores the position
#[kani::proof]
fn make_is_rules_succ_and_unmake_restores() {
    let v = any_pos();
    kani::assume(board_wf(v));
    kani::assume(clocks_ok(v));
    let m = Move { bits: kani::any(), mvvlva: 0 };
    kani::assume(move_wf(v, m));
    kani::cover!(f_castle_move(m.bits) != 0, "a castling move is reachable");
    kani::cover!(f_en_passant_attack(m.bits) != 0, "an en-passant capture is reachable");
    kani::cover!(f_promotion_piece(m.bits) != 0, "a promotion is reachable");
    kani::cover!(v.half >= 128, "a half-move clock >= 128 is reachable");
    let mut board = to_board(v);
    board.make(m);
    let s = rules_succ(v, f_source_square(m.bits), f_target_square(m.bits), f_promotion_piece(m.bits));
    assert!(board_view(&board) == s);
    board.unmake(m);
    assert!(board_view(&board) == v);
}

// ---- C13: make_all_uci is all-or-nothing.  BOUNDED stand-in (list length <= 2).  The text matching of find_uci
//      (iterator chain + format!) is replaced by a Kani stub that answers nondeterministically with an error or with
//      ANY move that is well-formed for the current position; the real make_all_uci / make_uci / make / unmake run.
//      Robust against a rewrite of the rollback (e.g. snapshot/restore instead of unmake). ----
static mut STUB_OK_CALLS_LEFT: u32 = 0;
fn stub_find_uci(b: &mut Bitboard, _uci: &str) -> Result<Move, MoveFromUciError> {
    // the first STUB_OK_CALLS_LEFT calls succeed with an arbitrary well-formed move, the next one is rejected
    let ok = unsafe { if STUB_OK_CALLS_LEFT > 0 { STUB_OK_CALLS_LEFT -= 1; true } else { false } };
    if ok {
        let v = board_view(b);
        kani::assume(board_wf(v));
        kani::assume(clocks_ok(v));
        let m = Move { bits: kani::any(), mvvlva: 0 };
        kani::assume(move_wf(v, m));
        kani::assume(no_king_capture(v, m));
        Ok(m)
    } else {
        Err(MoveFromUciError::MoveDoesNotExist(String::new()))
    }
}

/// a list whose first k moves (k <= 1) are accepted and whose next move is rejected leaves the position as it was
#[kani::proof]
#[kani::stub(Bitboard::find_uci, stub_find_uci)]
#[kani::unwind(4)]
fn make_all_uci_all_or_nothing_len2() {
    let v = any_pos();
    kani::assume(board_wf(v));
    kani::assume(clocks_ok(v));
    let mut board = to_board(v);
    let moves: [String; 2] = [String::new(), String::new()];
    let k: u32 = kani::any();
    kani::assume(k <= 1);
    kani::cover!(k == 1 && v.turn == 1);
    unsafe { STUB_OK_CALLS_LEFT = k; }
    let r = board.make_all_uci(&moves[..(k as usize + 1)]);
    assert!(r.is_err());
    assert!(board_view(&board) == v);
}
