// harness module `square` (C15 kernel): Square::from_chars is total and exact over ALL pairs of chars (complete, loop-free).
// Appended to core/src/constants/square.rs.
#[kani::proof]
fn from_chars_total_and_exact() {
    let file: char = kani::any();
    let rank: char = kani::any();
    kani::cover!(file == 'h' && rank == '8');
    kani::cover!((file as u32) < ('a' as u32));
    let r = Square::from_chars(file, rank);   // must not panic for any input
    let valid = ('a'..='h').contains(&file) && ('1'..='8').contains(&rank);
    match r {
        Some(sq) => {
            assert!(valid);
            let f = file as u32 - 'a' as u32;
            let row = 8 - (rank as u32 - '0' as u32);
            assert!(sq.shift == row * 8 + f);
            assert!(sq.mask == 1u64 << sq.shift);
            assert!(sq.fen.len() == 2 && sq.fen.as_bytes()[0] == file as u8 && sq.fen.as_bytes()[1] == rank as u8);
        }
        None => assert!(!valid),
    }
}
