// harness module `fifo` (C18, BOUNDED stand-in): HashTable<ZobristHash, u8> against a FIFO-map model written from the
// property text, for every history of 4 operations (put / clear, symbolic keys and values) on a table of capacity 1 or 2.
// Stands next to the unbounded Verus proof (unit hashtable): it still decides when the table is rewritten with constructs
// outside Verus' subset (new helpers, std calls without a vstd specification) and it yields counterexamples.
// Appended to engine_core/src/engine/table.rs.

struct Model { keys: [u64; 2], vals: [u8; 2], len: usize, cap: usize }
impl Model {
    fn find(&self, k: u64) -> Option<usize> {
        if self.len > 0 && self.keys[0] == k { return Some(0); }
        if self.len > 1 && self.keys[1] == k { return Some(1); }
        None
    }
    fn put(&mut self, k: u64, v: u8) {
        match self.find(k) {
            Some(i) => { self.vals[i] = v; }           // present: value replaced, age unchanged
            None => {
                if self.len == self.cap {               // full: the oldest key goes
                    self.keys[0] = self.keys[1]; self.vals[0] = self.vals[1]; self.len -= 1;
                }
                self.keys[self.len] = k; self.vals[self.len] = v; self.len += 1;
            }
        }
    }
}

#[kani::proof]
#[kani::unwind(6)]
fn fifo_map_capacity_le2_ops4() {
    let cap: usize = kani::any();
    kani::assume(cap == 1 || cap == 2);
    let mut t: HashTable<ZobristHash, u8> = HashTable::new(cap);
    let mut m = Model { keys: [0; 2], vals: [0; 2], len: 0, cap };
    let probe: u64 = (kani::any::<u8>() & 3) as u64;
    let mut i = 0;
    while i < 4 {
        let is_clear: bool = kani::any();
        if is_clear { t.clear(); m.len = 0; } else {
            let k: u64 = (kani::any::<u8>() & 3) as u64;     // four distinct keys are enough to fill, evict and re-insert
            let v: u8 = kani::any();
            t.put(k, v); m.put(k, v);
        }
        assert!(t.len() == m.len);
        assert!(t.len() <= cap);
        let expect = m.find(probe).map(|j| m.vals[j]);
        assert!(t.get(probe).copied() == expect);
        i += 1;
    }
    kani::cover!(m.len == 2);
}
