// harness module `zobrist` (C06): facts about the real key tables, full domain, loop-free => complete.
// Appended to board/src/board/zobrist.rs (private tables are in scope through `use super::*`).
use crate::board::constants::*;

/// all 781 keys in one index space: 12 x 64 piece-square keys, 8 e.p. file keys, 4 castle keys, the side key
fn key_at(i: u32) -> u64 {
    if i < 768 {
        let piece = (i / 64) % 6 + 1;
        let color = i / 384;
        Zobrist::piece_square_hash(piece as u64, i % 64, color)
    } else if i < 776 {
        Zobrist::en_passant_square_hash(i - 768)
    } else if i < 780 {
        Zobrist::castle_hash(if (i - 776) % 2 == 0 { QUEEN } else { KING }, (i - 776) / 2)
    } else {
        Zobrist::BLACK_TO_MOVE_HASH
    }
}

/// accessors stay inside their tables for every argument the contracts admit; "no piece" contributes nothing
#[kani::proof]
fn accessors_in_bounds_and_zero_rows() {
    let piece: u64 = kani::any();
    let sq: u32 = kani::any();
    let color: u32 = kani::any();
    kani::assume(piece < 7 && sq < 64 && color <= 1);
    kani::cover!(piece == 6 && sq == 63 && color == 1);
    let k = Zobrist::piece_square_hash(piece, sq, color);
    if piece == 0 {
        assert!(k == 0);
    }
    let any_sq: u32 = kani::any();
    let e = Zobrist::en_passant_square_hash(any_sq);
    assert!(e == Zobrist::en_passant_square_hash(any_sq % 8));
}

/// castle_hash(side, color) is in bounds for side in {QUEEN, KING} and equals the named constants
#[kani::proof]
fn castle_keys() {
    assert!(Zobrist::castle_hash(QUEEN, WHITE) == Zobrist::WHITE_QUEEN_CASTLE_HASH);
    assert!(Zobrist::castle_hash(KING, WHITE) == Zobrist::WHITE_KING_CASTLE_HASH);
    assert!(Zobrist::castle_hash(QUEEN, BLACK) == Zobrist::BLACK_QUEEN_CASTLE_HASH);
    assert!(Zobrist::castle_hash(KING, BLACK) == Zobrist::BLACK_KING_CASTLE_HASH);
    assert!(QUEEN == 5 && KING == 6 && WHITE == 0 && BLACK == 1);
}

/// every key is non-zero and no two keys coincide: a change of any single component (one piece on one square, one
/// right, the side to move, the e.p. file) is the xor of one or two distinct non-zero keys, hence changes the hash
#[kani::proof]
fn keys_nonzero_distinct() {
    let i: u32 = kani::any();
    let j: u32 = kani::any();
    kani::assume(i < 781 && j < 781 && i != j);
    kani::cover!(i == 780 && j == 0);
    assert!(key_at(i) != 0);
    assert!(key_at(i) != key_at(j));
}

/// "identifies the position" beyond single components, for the cheapest structured case: exchanging two pieces (any kinds,
/// any colours) between two squares, or swapping the colours of two pieces, must change the hash — i.e. no four piece-square
/// keys of the shape k(a,x) ^ k(b,y) ^ k(b,x) ^ k(a,y) cancel (a, b = piece+colour, x != y).  A key table built as
/// "white key xor one colour constant" (seed C06-8) has exactly this dependency while all keys stay distinct and non-zero.
#[kani::proof]
fn two_piece_exchange_changes_hash() {
    let pa: u64 = kani::any();
    let pb: u64 = kani::any();
    let ca: u32 = kani::any();
    let cb: u32 = kani::any();
    let x: u32 = kani::any();
    let y: u32 = kani::any();
    kani::assume(1 <= pa && pa <= 6 && 1 <= pb && pb <= 6 && ca <= 1 && cb <= 1 && x < 64 && y < 64 && x != y);
    kani::assume(pa != pb || ca != cb);
    kani::cover!(pa == 2 && pb == 2 && ca == 0 && cb == 1 && x == 36 && y == 28);
    let before = Zobrist::piece_square_hash(pa, x, ca) ^ Zobrist::piece_square_hash(pb, y, cb);
    let after = Zobrist::piece_square_hash(pb, x, cb) ^ Zobrist::piece_square_hash(pa, y, ca);
    assert!(before != after);
}
