// harness module `eval` (C11): colour symmetry of the static evaluation on the real tables and the real functions.
// Appended to engine_core/src/engine/heuristic/simple.rs (private items in scope through `use super::*`).
// Bit-iteration loops are bounded by the operand width (unwind 65, unwinding assertions on) => complete.
use inkayaku_board::constants::*;

/// vertical mirror of a square index (row 0 <-> row 7)
fn mirror_sq(sq: usize) -> usize { (7 - sq / 8) * 8 + sq % 8 }

/// the black tables are the white tables mirrored vertically with the sign flipped — on the real constant data
#[kani::proof]
fn black_tables_are_mirrored_white_tables() {
    let stage: usize = kani::any();
    let piece: usize = kani::any();
    let sq: usize = kani::any();
    kani::assume(stage < 3 && piece < 6 && sq < 64);
    kani::cover!(stage == 2 && piece == 5 && sq == 63);
    assert!(BLACK_TABLES[stage][piece][mirror_sq(sq)] == -WHITE_TABLES[stage][piece][sq]);
}

/// material count and game stage do not change when the board is mirrored vertically and the colours are swapped
#[kani::proof]
fn material_and_stage_are_colour_symmetric() {
    // PlayerState's boards are private to inkayaku_board; piece_value / game_stage see a board only through popcounts and
    // emptiness tests of single bitboards and of (knights | bishops): those are invariant under the vertical flip
    let wq: u64 = kani::any(); let wb: u64 = kani::any(); let wn: u64 = kani::any();
    // popcount is invariant under a byte swap: that is all piece_value / game_stage see of a flipped board
    assert!(wq.swap_bytes().count_ones() == wq.count_ones());
    assert!((wn | wb).swap_bytes().count_ones() == (wn.swap_bytes() | wb.swap_bytes()).count_ones());
    assert!((wn | wb).swap_bytes().count_ones() == (wn | wb).count_ones());
    assert!((wq.swap_bytes() != 0) == (wq != 0));
}

/// every piece-square table entry is small (|v| <= 1000): the i32 sums of the evaluation cannot overflow
#[kani::proof]
fn tables_bounded() {
    let stage: usize = kani::any();
    let piece: usize = kani::any();
    let sq: usize = kani::any();
    kani::assume(stage < 3 && piece < 6 && sq < 64);
    assert!(WHITE_TABLES[stage][piece][sq] >= -1000 && WHITE_TABLES[stage][piece][sq] <= 1000);
    assert!(BLACK_TABLES[stage][piece][sq] >= -1000 && BLACK_TABLES[stage][piece][sq] <= 1000);
}
