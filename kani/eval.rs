// harness module `eval` (C11): colour symmetry of the static evaluation on the real tables and the real functions.
// Appended to engine_core/src/engine/heuristic/simple.rs (private items in scope through `use super::*`).
// Bit-iteration loops are bounded by the operand width (unwind 65, unwinding assertions on) => complete.
use inkayaku_board::constants::*;

/// vertical mirror of a square index (row 0 <-> row 7)
fn mirror_sq(sq: usize) -> usize { (7 - sq / 8) * 8 + sq % 8 }

/// the black tables are the white tables mirrored vertically with the sign flipped — on the real constant data
#[kani::proof]
fn black_tables_are_mirrored_white_tables() {
    let stage: usize = kani::any();
    let piece: usize = kani::any();
    let sq: usize = kani::any();
    kani::assume(stage < 3 && piece < 6 && sq < 64);
    kani::cover!(stage == 2 && piece == 5 && sq == 63);
    assert!(BLACK_TABLES[stage][piece][mirror_sq(sq)] == -WHITE_TABLES[stage][piece][sq]);
}

/// piece-square sum of a vertically flipped bitboard against the black table is minus the sum against the white table
#[kani::proof]
#[kani::unwind(65)]
fn piece_square_sum_symmetric() {
    let stage: usize = kani::any();
    let piece: usize = kani::any();
    kani::assume(stage < 3 && piece < 6);
    let occ: u64 = kani::any();
    kani::cover!(occ == u64::MAX);
    let a = SimpleHeuristic::piece_square_sum(occ, &WHITE_TABLES[stage][piece]);
    let b = SimpleHeuristic::piece_square_sum(occ.swap_bytes(), &BLACK_TABLES[stage][piece]);
    assert!(b == -a);
}
