// executable oracle shared by the harness sets `tables` (C04) and `attacks` (oracle <-> quantified rules predicates).
// The oracle is written from the property statement: slide along each ray until the first blocker (blocker included);
// leapers: step patterns clipped at the board edge.  Square numbering: index = row * 8 + file, row 0 = rank 8.

const ROOK_DIRS: [(i32, i32); 4] = [(0, 1), (0, -1), (1, 0), (-1, 0)];
const BISHOP_DIRS: [(i32, i32); 4] = [(1, 1), (1, -1), (-1, 1), (-1, -1)];
const KING_STEPS: [(i32, i32); 8] = [(0, 1), (0, -1), (1, 0), (-1, 0), (1, 1), (1, -1), (-1, 1), (-1, -1)];
const KNIGHT_STEPS: [(i32, i32); 8] = [(1, 2), (1, -2), (-1, 2), (-1, -2), (2, 1), (2, -1), (-2, 1), (-2, -1)];
// (d_row, d_file): white pawns capture towards row 0 (rank 8), black pawns towards row 7 (rank 1)
const WHITE_PAWN_STEPS: [(i32, i32); 2] = [(-1, -1), (-1, 1)];
const BLACK_PAWN_STEPS: [(i32, i32); 2] = [(1, -1), (1, 1)];

fn ray_ref(sq: u32, occ: u64, dirs: &[(i32, i32); 4]) -> u64 {
    let mut result = 0u64;
    let mut d = 0;
    while d < 4 {
        let (dr, df) = dirs[d];
        let mut r = (sq / 8) as i32 + dr;
        let mut f = (sq % 8) as i32 + df;
        while r >= 0 && r < 8 && f >= 0 && f < 8 {
            let m = 1u64 << (r * 8 + f);
            result |= m;
            if occ & m != 0 {
                break;
            }
            r += dr;
            f += df;
        }
        d += 1;
    }
    result
}

fn step_ref<const N: usize>(sq: u32, steps: &[(i32, i32); N]) -> u64 {
    let mut result = 0u64;
    let mut i = 0;
    while i < N {
        let r = (sq / 8) as i32 + steps[i].0;
        let f = (sq % 8) as i32 + steps[i].1;
        if r >= 0 && r < 8 && f >= 0 && f < 8 {
            result |= 1u64 << (r * 8 + f);
        }
        i += 1;
    }
    result
}

