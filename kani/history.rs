// harness module `history` (C10, BOUNDED stand-in): ZobristHistory::count_repetitions against a reference written from the
// property text, for every history whose current ply index is < 10 (symbolic hashes, symbolic half-move clock).
// Stands next to the unbounded Verus proof of the same function (unit history): it still decides when the function
// is rewritten in a style outside Verus' subset (iterator adapters), and it yields counterexamples.  Appended to
// engine_core/src/engine/zobrist_history.rs.

/// how often the position at `start` occurs among the positions with the same side to move since the last capture or
/// pawn move (the position right after that move included)
fn occurrences_ref(h: &[u64; 5000], start: usize, clock: usize) -> usize {
    let lo = start.saturating_sub(clock) as isize;
    let mut n = 0;
    let mut i = start as isize;
    while i >= lo {
        if h[i as usize] == h[start] {
            n += 1;
        }
        i -= 2;
    }
    n
}

#[kani::proof]
#[kani::unwind(12)]
fn count_repetitions_bounded_10() {
    let mut hist = ZobristHistory::default();
    let mut i = 0;
    while i < 10 {
        hist.history[i] = kani::any();
        i += 1;
    }
    let start: u16 = kani::any();
    let clock: u16 = kani::any();
    kani::assume(start < 10);
    // chess fact (assumed, as in the Verus contract): a position cannot recur after exactly two plies
    if start >= 2 && clock >= 2 {
        kani::assume(hist.history[start as usize - 2] != hist.history[start as usize]);
    }
    kani::cover!(start == 9 && clock == 9);
    kani::cover!(clock > start && (clock - start) % 2 == 1);
    let r = hist.count_repetitions(start, clock);
    let n = occurrences_ref(&hist.history, start as usize, clock as usize);
    assert!((r >= 3) == (n >= 3));
}
