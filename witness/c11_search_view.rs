// witness probe for C11 (appended to engine_core/src/engine/search.rs, private access): the search's view of a static value —
// calculate_heuristic_factor and Search::evaluate: white-centric value for white, negated for black; the mated side to move
// sees a strongly negative value, a stalemated one 0, for either colour.
#[cfg(test)]
mod verif_witness_c11_search_view {
    use std::str::FromStr;
    use std::sync::Arc;
    use std::sync::mpsc::channel;

    use inkayaku_core::fen::Fen;
    use inkayaku_uci::command::CommandUciTx;

    use crate::engine::heuristic::Heuristic;
    use crate::engine::heuristic::simple::SimpleHeuristic;
    use crate::engine::move_order::MvvLvaMoveOrder;
    use crate::engine::search::{calculate_heuristic_factor, EngineOptions, Search};

    #[test]
    fn verif_witness_c11_search_view() {
        let mut bad = 0;
        if calculate_heuristic_factor(0) != 1 || calculate_heuristic_factor(1) != -1 {
            println!("FAILING-INPUT: calculate_heuristic_factor(white) = {}, (black) = {}", calculate_heuristic_factor(0), calculate_heuristic_factor(1));
            bad += 1;
        }
        let h = SimpleHeuristic {};
        for (fen, mated) in [
            ("6k1/8/8/8/8/8/5PPP/3r2K1 w - - 0 40", true), ("3R2k1/5ppp/8/8/8/8/8/6K1 b - - 0 40", true),
            ("7k/5Q2/6K1/8/8/8/8/8 b - - 0 40", false), ("8/8/8/8/8/6k1/5q2/7K w - - 0 40", false),
            // mates and a stalemate with minor pieces only ("insufficient material" by count, yet the game is over)
            ("kn6/2N5/1K6/8/8/8/8/8 b - - 0 40", true), ("kb6/1B6/1K6/8/8/8/8/8 b - - 0 40", true), ("8/8/8/8/8/6k1/5n2/6NK w - - 0 40", true),
            ("k7/2K5/1B6/8/8/8/8/8 b - - 0 40", false),
        ] {
            let (uci_tx, _uci_rx) = channel();
            let (_search_tx, search_rx) = channel();
            let mut search = Search::new(Arc::new(CommandUciTx::new(uci_tx)), search_rx, SimpleHeuristic {}, MvvLvaMoveOrder, EngineOptions::default());
            search.set_position_from(Fen::from_str(fen).unwrap(), Vec::new());
            let turn = search.state.bitboard.turn;
            let v = search.evaluate(turn, 0, false);
            let expect = if mated { h.loss_score() + 40 } else { 0 };
            if v != expect {
                println!("FAILING-INPUT: fen={:?}: the side to move without legal moves ({}) sees {} through Search::evaluate, expected {}", fen, if mated { "checkmated" } else { "stalemated" }, v, expect);
                bad += 1;
            }
            // an ongoing position: the two colours see values of opposite sign
            let w = search.evaluate(0, 0, true);
            let b = search.evaluate(1, 0, true);
            if w != -b { println!("FAILING-INPUT: fen={:?}: white sees {} and black sees {} for the same position", fen, w, b); bad += 1; }
        }
        assert_eq!(bad, 0);
    }
}
