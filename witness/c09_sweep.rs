// witness probe for C09 (appended to engine_core/src/engine/search.rs, private access): a DETERMINISTIC sweep over
// interruption points.  A stop message is queued before `go infinite` and the node counter is preset so that the flags are
// polled (and the stop is seen) exactly N nodes into the search; after the interrupted search — and after a second one — the
// board the search holds must be the position it was given.
#[cfg(test)]
mod verif_witness_c09_sweep {
    use std::str::FromStr;
    use std::sync::Arc;
    use std::sync::mpsc::channel;

    use inkayaku_board::Bitboard;
    use inkayaku_core::fen::Fen;
    use inkayaku_uci::{Go, UciMove, UciTxCommand};
    use inkayaku_uci::command::CommandUciTx;

    use crate::engine::heuristic::simple::SimpleHeuristic;
    use crate::engine::move_order::MvvLvaMoveOrder;
    use crate::engine::search::{EngineOptions, Search, SearchMessage};

    #[test]
    fn verif_witness_c09_interruption_sweep() {
        let mut bad = 0;
        for (fen, moves) in [
            ("rnbqkbnr/pppppppp/8/8/8/8/PPPPPPPP/RNBQKBNR w KQkq - 0 1", &[][..]),
            ("rnbqkbnr/pppppppp/8/8/8/8/PPPPPPPP/RNBQKBNR w KQkq - 0 1", &["e2e4", "e7e5", "g1f3", "b8c6", "f1c4", "g8f6"][..]),
            ("r3k2r/p1ppqpb1/bn2pnp1/3PN3/1p2P3/2N2Q1p/PPPBBPPP/R3K2R w KQkq - 0 1", &[][..]),
            ("8/R4pk1/6p1/7p/r6P/6P1/r4PK1/8 w - - 0 40", &[][..]),
        ] {
            let parsed = Fen::from_str(fen).unwrap();
            let mut expect_board = Bitboard::from(&parsed);
            for m in moves { expect_board.make_uci(m).unwrap(); }
            let expect = Fen::from(&expect_board).fen;
            let mut n: u64 = 300;
            while n < 60_000 {
                let (uci_tx, uci_rx) = channel();
                let (search_tx, search_rx) = channel();
                let mut search = Search::new(Arc::new(CommandUciTx::new(uci_tx)), search_rx, SimpleHeuristic, MvvLvaMoveOrder, EngineOptions::default());
                search.set_position_from(parsed.clone(), moves.iter().map(|s| UciMove::parse(s).unwrap()).collect());
                for round in 1..=2 {
                    search_tx.send(SearchMessage::UciStop).unwrap();
                    search.params.go = Go { infinite: true, ..Go::default() };
                    // go() resets the per-search counters first; the preset is applied through the same entry points go() uses
                    search.reset_for_go();
                    search.state.metrics.last.negamax_nodes = 100_000 - n;
                    search.state.is_running = true;
                    let (_best, _ponder) = search.best_move();
                    search.state.is_running = false;
                    let held = Fen::from(&search.state.bitboard).fen;
                    if held != expect {
                        if bad < 5 { println!("FAILING-INPUT: fen={:?} moves={:?}: stop seen {} nodes into `go infinite` (interruption #{}): the search now holds {:?}", fen, moves, n, round, held); }
                        bad += 1;
                        break;
                    }
                }
                while uci_rx.try_recv().is_ok() {}
                let _: Option<UciTxCommand> = None;
                n += 1487;
            }
        }
        assert_eq!(bad, 0);
    }

    /// the bestmove of an interrupted search is the one of the last completed iteration: the closing info reports depth d, a
    /// fresh search of the same position to depth d must answer the same move (the search is deterministic)
    #[test]
    fn verif_witness_c09_interruption_bestmove_origin() {
        let mut bad = 0;
        for fen in ["rnb1kbnr/pppp1ppp/8/4p3/4P3/8/PPPP1PPP/RNBQKBNR b KQkq - 0 2",      // the side to move is a queen down
                    "r1b1kbnr/pppp1ppp/2n5/4p3/4P3/5N2/PPPP1PPP/RNBQKB1R w KQkq - 0 3"] { // ... a queen up
            let parsed = Fen::from_str(fen).unwrap();
            for polls in [1usize, 2, 3, 5] {
                // the flags are polled every 100,000 nodes and every poll emits an info line without a depth; a helper thread
                // sends `stop` as soon as it has seen `polls` of them, so the stop is picked up at the next poll
                let (uci_tx, uci_rx) = channel();
                let (search_tx, search_rx) = channel();
                let mut search = Search::new(Arc::new(CommandUciTx::new(uci_tx)), search_rx, SimpleHeuristic, MvvLvaMoveOrder, EngineOptions::default());
                search.set_position_from(parsed.clone(), Vec::new());
                search.params.go = Go { infinite: true, ..Go::default() };
                search.reset_for_go();
                let helper = std::thread::spawn(move || {
                    let mut seen = 0usize;
                    let mut depth = None;
                    while let Ok(c) = uci_rx.recv() {
                        if let UciTxCommand::Info { info } = c {
                            match info.depth {
                                Some(d) => depth = Some(d),
                                None => { seen += 1; if seen == polls { let _ = search_tx.send(SearchMessage::UciStop); } }
                            }
                        }
                    }
                    depth
                });
                search.state.is_running = true;
                let (best, _ponder) = search.best_move();
                search.state.is_running = false;
                let n = polls;
                drop(search);      // closes the info channel, the helper returns the last depth reported
                let depth = helper.join().unwrap();
                let d = match depth { Some(d) if d >= 1 => d, _ => continue };
                let (uci_tx2, _uci_rx2) = channel();
                let (_search_tx2, search_rx2) = channel();
                let mut fresh = Search::new(Arc::new(CommandUciTx::new(uci_tx2)), search_rx2, SimpleHeuristic, MvvLvaMoveOrder, EngineOptions::default());
                fresh.set_position_from(parsed.clone(), Vec::new());
                fresh.params.go = Go { depth: Some(d as u64), ..Go::default() };
                fresh.reset_for_go();
                let (expect, _p) = fresh.best_move();
                if best.as_ref().map(|m| m.to_string()) != expect.as_ref().map(|m| m.to_string()) {
                    if bad < 5 { println!("FAILING-INPUT: fen={:?}: stop sent after {} polls of `go infinite`; closing info depth {}, bestmove {:?}; a fresh search to depth {} answers {:?}", fen, n, d, best.map(|m| m.to_string()), d, expect.map(|m| m.to_string())); }
                    bad += 1;
                }
            }
        }
        assert_eq!(bad, 0);
    }

    /// "a following go without a new position command searches the same position as before (its bestmove is legal there and
    /// its depth-1 score equals that of a fresh engine given that position)" — for positions WITH repetition history, where
    /// the draw rules make the answer depend on more than the board: sweep over interruption points, then `go depth 1`
    #[test]
    fn verif_witness_c09_interruption_then_depth_one() {
        use inkayaku_uci::Score;
        fn depth_one(search: &mut Search<CommandUciTx, SimpleHeuristic, MvvLvaMoveOrder>, uci_rx: &std::sync::mpsc::Receiver<UciTxCommand>) -> (Option<String>, Option<Score>) {
            while uci_rx.try_recv().is_ok() {}
            search.params.go = Go { depth: Some(1), ..Go::default() };
            search.go();                                   // the entry point the engine uses, including its own reset of the flags
            let mut score = None;
            let mut best = None;
            while let Ok(c) = uci_rx.try_recv() {
                match c {
                    UciTxCommand::Info { info } => { if info.depth == Some(1) && info.score.is_some() { score = info.score; } }
                    UciTxCommand::BestMove { best_move, .. } => { best = best_move.map(|m| m.to_string()); }
                    _ => {}
                }
            }
            (best, score)
        }
        let mut bad = 0;
        for (fen, moves) in [
            // the position after the list has occurred twice; one root move completes a threefold
            ("5rk1/5r2/p7/2p1p1q1/N1P1P2p/1P3P1P/P4RP1/5RK1 w - - 0 28", &["a4b6", "g5e3", "b6d5", "e3g5", "d5b6", "g5e3", "b6d5", "e3g5"][..]),
            ("4k3/8/8/8/8/8/3Q4/4K3 w - - 6 30", &["e1e2", "e8e7", "e2e1", "e7e8", "e1e2", "e8e7", "e2e1", "e7e8"][..]),
        ] {
            let parsed = Fen::from_str(fen).unwrap();
            let (uci_tx0, uci_rx0) = channel();
            let (_tx0, search_rx0) = channel();
            let mut fresh = Search::new(Arc::new(CommandUciTx::new(uci_tx0)), search_rx0, SimpleHeuristic, MvvLvaMoveOrder, EngineOptions::default());
            fresh.set_position_from(parsed.clone(), moves.iter().map(|s| UciMove::parse(s).unwrap()).collect());
            let expect = depth_one(&mut fresh, &uci_rx0);
            let mut n: u64 = 500;
            while n < 40_000 {
                let (uci_tx, uci_rx) = channel();
                let (search_tx, search_rx) = channel();
                let mut search = Search::new(Arc::new(CommandUciTx::new(uci_tx)), search_rx, SimpleHeuristic, MvvLvaMoveOrder, EngineOptions::default());
                search.set_position_from(parsed.clone(), moves.iter().map(|s| UciMove::parse(s).unwrap()).collect());
                for _round in 1..=2 {
                    search_tx.send(SearchMessage::UciStop).unwrap();
                    search.params.go = Go { infinite: true, ..Go::default() };
                    search.reset_for_go();
                    search.state.metrics.last.negamax_nodes = 100_000 - n;
                    search.state.is_running = true;
                    let _ = search.best_move();
                    search.state.is_running = false;
                }
                let got = depth_one(&mut search, &uci_rx);
                if got != expect {
                    if bad < 5 { println!("FAILING-INPUT: fen={:?} moves={:?}: after two searches interrupted {} nodes in, `go depth 1` answers {:?}; a fresh engine given the same position answers {:?}", fen, moves, n, got, expect); }
                    bad += 1;
                    break;
                }
                n += 3491;
            }
        }
        assert_eq!(bad, 0);
    }

    /// "every timing of stop": a stop (or quit) is honoured whatever else arrives in the same poll of the command channel —
    /// the poll drains the whole channel, so `stop` may be followed (or preceded) by ucinewgame / debug / ponderhit / a
    /// position or go command that is ignored during a search.  Direct: after check_messages the stop flag is set.
    /// End to end: a depth-limited search polled N nodes in ends as an interrupted one (flag still set when it returns).
    #[test]
    fn verif_witness_c09_interruption_stop_with_company() {
        fn company(k: usize) -> Option<SearchMessage> {
            match k {
                0 => None,
                1 => Some(SearchMessage::UciUciNewGame),
                2 => Some(SearchMessage::UciDebug(true)),
                3 => Some(SearchMessage::UciPonderHit),
                4 => Some(SearchMessage::UciGo(Go::default())),
                5 => Some(SearchMessage::UciPositionFrom(Fen::default(), Vec::new())),
                _ => Some(SearchMessage::UciDebug(false)),
            }
        }
        let names = ["-", "ucinewgame", "debug on", "ponderhit", "go", "position", "debug off"];
        let mut bad = 0;
        for quit in [false, true] {
            for before in 0..7 {
                for after in 0..7 {
                    let (uci_tx, _uci_rx) = channel();
                    let (search_tx, search_rx) = channel();
                    let mut search = Search::new(Arc::new(CommandUciTx::new(uci_tx)), search_rx, SimpleHeuristic, MvvLvaMoveOrder, EngineOptions::default());
                    search.reset_for_go();
                    if let Some(m) = company(before) { search_tx.send(m).unwrap(); }
                    search_tx.send(if quit { SearchMessage::UciQuit } else { SearchMessage::UciStop }).unwrap();
                    if let Some(m) = company(after) { search_tx.send(m).unwrap(); }
                    search.check_messages();
                    if !search.flags.stop_as_soon_as_possible || (quit && !search.flags.quit_as_soon_as_possible) {
                        if bad < 5 { println!("FAILING-INPUT: one poll drains [{}, {}, {}]: afterwards the search does not know it was told to stop (stop flag {}, quit flag {})", names[before], if quit { "quit" } else { "stop" }, names[after], search.flags.stop_as_soon_as_possible, search.flags.quit_as_soon_as_possible); }
                        bad += 1;
                    }
                }
            }
        }
        // end to end
        let parsed = Fen::from_str("rnbqkbnr/pppppppp/8/8/8/8/PPPPPPPP/RNBQKBNR w KQkq - 0 1").unwrap();
        for after in 1..7 {
            let (uci_tx, uci_rx) = channel();
            let (search_tx, search_rx) = channel();
            let mut search = Search::new(Arc::new(CommandUciTx::new(uci_tx)), search_rx, SimpleHeuristic, MvvLvaMoveOrder, EngineOptions::default());
            search.set_position_from(parsed.clone(), Vec::new());
            search_tx.send(SearchMessage::UciStop).unwrap();
            search_tx.send(company(after).unwrap()).unwrap();
            search.params.go = Go { depth: Some(5), ..Go::default() };   // bounded so that a lost stop cannot hang the probe
            search.reset_for_go();
            search.state.metrics.last.negamax_nodes = 100_000 - 700;
            search.state.is_running = true;
            let (best, _ponder) = search.best_move();
            search.state.is_running = false;
            let mut last_depth = None;
            while let Ok(c) = uci_rx.try_recv() { if let UciTxCommand::Info { info } = c { if info.depth.is_some() { last_depth = info.depth; } } }
            if !search.flags.stop_as_soon_as_possible || last_depth >= Some(5) {
                if bad < 8 { println!("FAILING-INPUT: startpos `go depth 5` with [stop, {}] picked up by the first poll (700 nodes in): the search ran on to depth {:?} (bestmove {:?}) instead of stopping", names[after], last_depth, best.map(|m| m.to_string())); }
                bad += 1;
            }
        }
        assert_eq!(bad, 0);
    }

    /// "an interrupted search still answers with exactly one bestmove": through go(), the entry point the engine uses, with
    /// the interruption (stop / quit / stop+quit / quit with company) already queued so that the first poll picks it up, and
    /// with a move-time limit that runs out in the middle of an iteration.  Exactly one BestMove command must be on the wire.
    #[test]
    fn verif_witness_c09_interruption_one_bestmove_per_go() {
        let parsed = Fen::from_str("rnbqkbnr/pppppppp/8/8/8/8/PPPPPPPP/RNBQKBNR w KQkq - 0 1").unwrap();
        let mut bad = 0;
        for case in 0..6 {
            let (uci_tx, uci_rx) = channel();
            let (search_tx, search_rx) = channel();
            let mut search = Search::new(Arc::new(CommandUciTx::new(uci_tx)), search_rx, SimpleHeuristic, MvvLvaMoveOrder, EngineOptions::default());
            search.set_position_from(parsed.clone(), vec![UciMove::parse("e2e4").unwrap(), UciMove::parse("e7e5").unwrap()]);
            let what = match case {
                0 => { search_tx.send(SearchMessage::UciStop).unwrap(); "stop" }
                1 => { search_tx.send(SearchMessage::UciQuit).unwrap(); "quit" }
                2 => { search_tx.send(SearchMessage::UciStop).unwrap(); search_tx.send(SearchMessage::UciQuit).unwrap(); "stop, quit" }
                3 => { search_tx.send(SearchMessage::UciUciNewGame).unwrap(); search_tx.send(SearchMessage::UciQuit).unwrap(); "ucinewgame, quit" }
                4 => "movetime 150",
                _ => "depth 2 (not interrupted)",
            };
            search.params.go = match case {
                4 => Go { move_time: Some(std::time::Duration::from_millis(150)), ..Go::default() },
                5 => Go { depth: Some(2), ..Go::default() },
                _ => Go { depth: Some(6), ..Go::default() },     // bounded, so that a lost interruption cannot hang the probe
            };
            search.go();
            let mut n = 0;
            while let Ok(c) = uci_rx.try_recv() { if let UciTxCommand::BestMove { .. } = c { n += 1; } }
            if n != 1 {
                println!("FAILING-INPUT: position startpos moves e2e4 e7e5, go with [{}] pending: {} bestmove commands were sent, expected exactly 1", what, n);
                bad += 1;
            }
        }
        assert_eq!(bad, 0);
    }
}
