// witness probe for C09 (appended to engine_core/src/engine/search.rs, private access): a DETERMINISTIC sweep over
// interruption points.  A stop message is queued before `go infinite` and the node counter is preset so that the flags are
// polled (and the stop is seen) exactly N nodes into the search; after the interrupted search — and after a second one — the
// board the search holds must be the position it was given.
#[cfg(test)]
mod verif_witness_c09_sweep {
    use std::str::FromStr;
    use std::sync::Arc;
    use std::sync::mpsc::channel;

    use inkayaku_board::Bitboard;
    use inkayaku_core::fen::Fen;
    use inkayaku_uci::{Go, UciMove, UciTxCommand};
    use inkayaku_uci::command::CommandUciTx;

    use crate::engine::heuristic::simple::SimpleHeuristic;
    use crate::engine::move_order::MvvLvaMoveOrder;
    use crate::engine::search::{EngineOptions, Search, SearchMessage};

    #[test]
    fn verif_witness_c09_interruption_sweep() {
        let mut bad = 0;
        for (fen, moves) in [
            ("rnbqkbnr/pppppppp/8/8/8/8/PPPPPPPP/RNBQKBNR w KQkq - 0 1", &[][..]),
            ("rnbqkbnr/pppppppp/8/8/8/8/PPPPPPPP/RNBQKBNR w KQkq - 0 1", &["e2e4", "e7e5", "g1f3", "b8c6", "f1c4", "g8f6"][..]),
            ("r3k2r/p1ppqpb1/bn2pnp1/3PN3/1p2P3/2N2Q1p/PPPBBPPP/R3K2R w KQkq - 0 1", &[][..]),
            ("8/R4pk1/6p1/7p/r6P/6P1/r4PK1/8 w - - 0 40", &[][..]),
        ] {
            let parsed = Fen::from_str(fen).unwrap();
            let mut expect_board = Bitboard::from(&parsed);
            for m in moves { expect_board.make_uci(m).unwrap(); }
            let expect = Fen::from(&expect_board).fen;
            let mut n: u64 = 300;
            while n < 60_000 {
                let (uci_tx, uci_rx) = channel();
                let (search_tx, search_rx) = channel();
                let mut search = Search::new(Arc::new(CommandUciTx::new(uci_tx)), search_rx, SimpleHeuristic, MvvLvaMoveOrder, EngineOptions::default());
                search.set_position_from(parsed.clone(), moves.iter().map(|s| UciMove::parse(s).unwrap()).collect());
                for round in 1..=2 {
                    search_tx.send(SearchMessage::UciStop).unwrap();
                    search.params.go = Go { infinite: true, ..Go::default() };
                    // go() resets the per-search counters first; the preset is applied through the same entry points go() uses
                    search.reset_for_go();
                    search.state.metrics.last.negamax_nodes = 100_000 - n;
                    search.state.is_running = true;
                    let (_best, _ponder) = search.best_move();
                    search.state.is_running = false;
                    let held = Fen::from(&search.state.bitboard).fen;
                    if held != expect {
                        if bad < 5 { println!("FAILING-INPUT: fen={:?} moves={:?}: stop seen {} nodes into `go infinite` (interruption #{}): the search now holds {:?}", fen, moves, n, round, held); }
                        bad += 1;
                        break;
                    }
                }
                while uci_rx.try_recv().is_ok() {}
                let _: Option<UciTxCommand> = None;
                n += 1487;
            }
        }
        assert_eq!(bad, 0);
    }
}
