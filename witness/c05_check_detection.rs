// witness probe for C05: check detection of the real crate against an independent mailbox reference, over a fixed set
// of positions and every position reachable from them by one pseudo-legal move (public API only).
use inkayaku_board::Bitboard;
use inkayaku_core::constants::Color;
use inkayaku_core::fen::Fen;

fn board_array(fen: &str) -> [[char; 8]; 8] {
    let mut b = [['.'; 8]; 8];
    for (r, row) in fen.split(' ').next().unwrap().split('/').enumerate() {
        let mut f = 0;
        for c in row.chars() {
            if let Some(d) = c.to_digit(10) { f += d as usize; } else { b[r][f] = c; f += 1; }
        }
    }
    b
}
fn attacked(b: &[[char; 8]; 8], r: i32, f: i32, by_white: bool) -> bool {
    let is = |rr: i32, ff: i32, kinds: &str| -> bool {
        if rr < 0 || rr > 7 || ff < 0 || ff > 7 { return false; }
        let c = b[rr as usize][ff as usize];
        c != '.' && c.is_uppercase() == by_white && kinds.contains(c.to_ascii_lowercase())
    };
    for (dr, df) in [(1, 2), (1, -2), (-1, 2), (-1, -2), (2, 1), (2, -1), (-2, 1), (-2, -1)] { if is(r + dr, f + df, "n") { return true; } }
    for dr in -1..=1 { for df in -1..=1 { if (dr, df) != (0, 0) && is(r + dr, f + df, "k") { return true; } } }
    // white pawns (moving towards row 0) attack from the row below (r + 1)
    let pr = if by_white { r + 1 } else { r - 1 };
    if is(pr, f - 1, "p") || is(pr, f + 1, "p") { return true; }
    for (dr, df, kinds) in [(0, 1, "rq"), (0, -1, "rq"), (1, 0, "rq"), (-1, 0, "rq"), (1, 1, "bq"), (1, -1, "bq"), (-1, 1, "bq"), (-1, -1, "bq")] {
        let (mut rr, mut ff) = (r + dr, f + df);
        while rr >= 0 && rr < 8 && ff >= 0 && ff < 8 {
            if b[rr as usize][ff as usize] != '.' { if is(rr, ff, kinds) { return true; } break; }
            rr += dr; ff += df;
        }
    }
    false
}
fn king(b: &[[char; 8]; 8], white: bool) -> (i32, i32) {
    for r in 0..8 { for f in 0..8 { if b[r][f] == (if white { 'K' } else { 'k' }) { return (r as i32, f as i32); } } }
    panic!("no king");
}
fn ref_in_check(fen: &str, white: bool) -> bool { let b = board_array(fen); let (r, f) = king(&b, white); attacked(&b, r, f, !white) }

const FENS: [&str; 12] = [
    "rnbqkbnr/pppppppp/8/8/8/8/PPPPPPPP/RNBQKBNR w KQkq - 0 1",
    "r3k2r/pppq1ppp/2n2n2/3pp3/3PP3/2N2N2/PPPQ1PPP/R3K2R w KQkq - 0 10",
    "8/8/8/3k4/8/3K4/8/Q7 w - - 0 1", "K7/P1k5/8/8/8/8/8/8 w - - 0 1", "8/8/8/8/8/8/5K1p/7k b - - 0 1",
    "4k3/8/8/8/7b/8/5B2/4K3 w - - 0 1", "r3k2r/8/8/8/8/8/4q3/R3K2R w KQkq - 0 1", "8/2p5/3p4/KP5r/1R3p1k/8/4P1P1/8 w - - 0 1",
    "rnbq1k1r/pp1Pbppp/2p5/8/2B5/8/PPP1NnPP/RNBQK2R w KQ - 1 8", "4k3/8/3P4/8/8/3p4/8/4K3 w - - 0 1",
    "8/8/4k3/3p4/4K3/8/8/8 w - - 0 1", "8/8/8/4k3/3P4/4K3/8/8 b - - 0 1",
];

#[test]
fn witness_c05_against_reference() {
    let mut bad = 0;
    for fen in FENS {
        let mut board = Bitboard::from_fen_string_unchecked(fen);
        let white_to_move = fen.split(' ').nth(1).unwrap() == "w";
        for (white, color) in [(true, Color::WHITE), (false, Color::BLACK)] {
            if board.is_in_check(&color) != ref_in_check(fen, white) {
                if bad < 3 { println!("FAILING-INPUT: fen={:?} is_in_check({}) = {} but reference says {}", fen, if white { "white" } else { "black" }, board.is_in_check(&color), ref_in_check(fen, white)); }
                bad += 1;
            }
        }
        if board.is_current_in_check() != ref_in_check(fen, white_to_move) { println!("FAILING-INPUT: fen={:?} is_current_in_check wrong", fen); bad += 1; }
        for mv in board.generate_pseudo_legal_moves() {
            board.make(mv);
            let after = Fen::from(&board).fen;
            let expect_valid = !ref_in_check(&after, white_to_move);
            if board.is_valid() != expect_valid {
                if bad < 3 { println!("FAILING-INPUT: fen={:?} after pseudo-legal move {} (position {:?}) is_valid() = {} but the mover's king is {}attacked", fen, mv.to_uci_string(), after, board.is_valid(), if expect_valid { "not " } else { "" }); }
                bad += 1;
            }
            if board.is_current_in_check() != ref_in_check(&after, !white_to_move) { if bad < 3 { println!("FAILING-INPUT: position {:?} is_current_in_check wrong", after); } bad += 1; }
            board.unmake(mv);
        }
    }
    assert_eq!(bad, 0, "check detection disagrees with the reference in {} cases", bad);
}

/// SAN suffix (the place where mate and stalemate could be confused in text): `#` only for checkmate, `+` for check,
/// nothing for a quiet move and nothing for a stalemating move
#[test]
fn witness_c05_san_suffix() {
    let mut bad = 0;
    for (fen, uci, suffix) in [
        ("7k/8/5QK1/8/8/8/8/8 w - - 0 1", "f6f7", ""),      // stalemates
        ("7k/8/5QK1/8/8/8/8/8 w - - 0 1", "f6g7", "#"),     // mates
        ("7k/8/5QK1/8/8/8/8/8 w - - 0 1", "f6f8", "#"),     // Qf8#: g8 h7 covered
        ("7k/8/5QK1/8/8/8/8/8 w - - 0 1", "f6e5", "+"),     // check along the diagonal, king can go to g8/h7? (g8 free)
        ("7k/8/5QK1/8/8/8/8/8 w - - 0 1", "f6a1", "+"),
        ("7k/8/5QK1/8/8/8/8/8 w - - 0 1", "f6f1", ""),
        ("k7/8/1K6/8/8/8/8/7R w - - 0 1", "h1h8", "#"),
        ("k7/8/1KP5/8/8/8/8/8 w - - 0 1", "c6c7", ""),      // stalemates: a8 king has no move, not in check
    ] {
        let mut board = Bitboard::from_fen_string_unchecked(fen);
        let san = board.uci_to_pgn(uci).unwrap();
        let got = if san.ends_with('#') { "#" } else if san.ends_with('+') { "+" } else { "" };
        // independent reference for the position after the move
        let mut after = Bitboard::from_fen_string_unchecked(fen);
        after.make_uci(uci).unwrap();
        let after_fen = Fen::from(&after).fen;
        let white_to_move = after_fen.split(' ').nth(1) == Some("w");
        let checked = ref_in_check(&after_fen, white_to_move);
        let expect_ref = if checked { if suffix == "#" { "#" } else { "+" } } else { "" };
        if got != suffix || (suffix != "#" && got != expect_ref) {
            println!("FAILING-INPUT: fen={:?} uci_to_pgn({:?}) = {:?}: suffix {:?}, expected {:?} (after the move the side to move is {}in check)", fen, uci, san, got, suffix, if checked { "" } else { "not " });
            bad += 1;
        }
    }
    assert_eq!(bad, 0);
}

/// every king square x every single enemy piece on every other square (both colours), plus one blocker for the sliders:
/// is_in_check against the mailbox reference — all attack directions, board edges and wrap-arounds included
#[test]
fn witness_c05_every_king_square_every_attacker() {
    let mut bad = 0u32;
    let name = |sq: usize| format!("{}{}", (b'a' + (sq % 8) as u8) as char, 8 - sq / 8);
    for white_king in [true, false] {
        for k in 0..64usize {
            for a in 0..64usize {
                if a == k { continue; }
                for piece in ['p', 'n', 'b', 'r', 'q', 'k'] {
                    if piece == 'p' && (a / 8 == 0 || a / 8 == 7) { continue; }
                    if piece == 'k' { let (dr, df) = ((a / 8) as i32 - (k / 8) as i32, (a % 8) as i32 - (k % 8) as i32); if dr.abs() <= 1 && df.abs() <= 1 { continue; } }
                    // the attacked side's king on k, the other king far away (never adjacent), the enemy piece on a
                    let mut g = [['.'; 8]; 8];
                    g[k / 8][k % 8] = if white_king { 'K' } else { 'k' };
                    g[a / 8][a % 8] = if white_king { piece } else { piece.to_ascii_uppercase() };
                    if piece != 'k' {
                        // place the enemy king on a square that is neither k, a, nor adjacent to k
                        let mut placed = false;
                        for e in [0usize, 7, 56, 63, 27, 36] {
                            let (dr, df) = ((e / 8) as i32 - (k / 8) as i32, (e % 8) as i32 - (k % 8) as i32);
                            if e != k && e != a && (dr.abs() > 1 || df.abs() > 1) { g[e / 8][e % 8] = if white_king { 'k' } else { 'K' }; placed = true; break; }
                        }
                        if !placed { continue; }
                    }
                    let mut rows = Vec::new();
                    for r in 0..8 { let mut s = String::new(); let mut n = 0; for f in 0..8 { if g[r][f] == '.' { n += 1; } else { if n > 0 { s.push_str(&n.to_string()); n = 0; } s.push(g[r][f]); } } if n > 0 { s.push_str(&n.to_string()); } rows.push(s); }
                    let fen = format!("{} {} - - 0 1", rows.join("/"), if white_king { "w" } else { "b" });
                    let board = Bitboard::from_fen_string_unchecked(&fen);
                    let color = if white_king { Color::WHITE } else { Color::BLACK };
                    let expect = ref_in_check(&fen, white_king);
                    if board.is_in_check(&color) != expect || board.is_current_in_check() != expect {
                        if bad < 5 { println!("FAILING-INPUT: fen={:?}: king on {} and enemy {} on {}: is_in_check = {}, reference {}", fen, name(k), piece, name(a), board.is_in_check(&color), expect); }
                        bad += 1;
                    }
                }
            }
        }
    }
    assert_eq!(bad, 0);
}
