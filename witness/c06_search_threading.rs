// witness probe for C06 (appended to engine_core/src/engine/search.rs, private access): the pawn hash the search threads down
// the tree by xor equals the pawn hash recomputed from the board, at every node that is evaluated.
#[cfg(test)]
mod verif_witness_c06_threading {
    use std::str::FromStr;
    use std::sync::{Arc, Mutex};
    use std::sync::mpsc::channel;

    use inkayaku_board::Bitboard;
    use inkayaku_board::constants::ZobristHash;
    use inkayaku_core::fen::Fen;
    use inkayaku_uci::Go;
    use inkayaku_uci::command::CommandUciTx;

    use crate::engine::heuristic::Heuristic;
    use crate::engine::heuristic::simple::SimpleHeuristic;
    use crate::engine::move_order::MvvLvaMoveOrder;
    use crate::engine::search::{EngineOptions, Search};

    struct Probe { seen: Arc<Mutex<(usize, Vec<String>)>> }
    impl Heuristic for Probe {
        fn evaluate_ongoing(&self, bitboard: &Bitboard, zobrist_pawn_hash: ZobristHash) -> i32 {
            let mut g = self.seen.lock().unwrap();
            g.0 += 1;
            if zobrist_pawn_hash != bitboard.calculate_zobrist_pawn_hash() && g.1.len() < 3 {
                g.1.push(Fen::from(bitboard).fen);
            }
            SimpleHeuristic.evaluate_ongoing(bitboard, zobrist_pawn_hash)
        }
    }

    #[test]
    fn verif_witness_c06_threaded_pawn_hash() {
        let mut bad = 0;
        for (fen, depth) in [
            ("rnbqkbnr/pppppppp/8/8/8/8/PPPPPPPP/RNBQKBNR w KQkq - 0 1", 4u64),
            ("r3k2r/p1ppqpb1/bn2pnp1/3PN3/1p2P3/2N2Q1p/PPPBBPPP/R3K2R w KQkq - 0 1", 2),
            ("4k3/pp4bp/8/8/8/2N5/PP4PP/4K3 w - - 0 1", 2),
            ("r3k2r/8/8/8/8/8/8/R3K2R b KQkq - 0 1", 3),
            ("8/P5k1/8/3pP3/8/8/6p1/K6R w - d6 0 90", 3),
            ("4k3/8/8/8/1p6/8/P7/4K3 w - - 0 1", 4),
        ] {
            let seen = Arc::new(Mutex::new((0usize, Vec::new())));
            let (uci_tx, _uci_rx) = channel();
            let (_search_tx, search_rx) = channel();
            let mut search = Search::new(Arc::new(CommandUciTx::new(uci_tx)), search_rx, Probe { seen: seen.clone() }, MvvLvaMoveOrder, EngineOptions::default());
            search.set_position_from(Fen::from_str(fen).unwrap(), Vec::new());
            search.params.go = Go { depth: Some(depth), ..Go::default() };
            search.go();
            let g = seen.lock().unwrap();
            if g.0 == 0 { println!("FAILING-INPUT: fen={:?} depth {}: the search evaluated no position", fen, depth); bad += 1; }
            if !g.1.is_empty() {
                println!("FAILING-INPUT: fen={:?} go depth {}: nodes reached with a threaded pawn hash that differs from the recomputed one, e.g. {:?}", fen, depth, g.1);
                bad += 1;
            }
        }
        assert_eq!(bad, 0);
    }
}
