// witness probe for C06: incremental hash update vs recomputation, clock/move-order independence (public API only).
use inkayaku_board::Bitboard;

const FENS: [&str; 8] = [
    "rnbqkbnr/pppppppp/8/8/8/8/PPPPPPPP/RNBQKBNR w KQkq - 0 1",
    "r3k2r/p1ppqpb1/bn2pnp1/3PN3/1p2P3/2N2Q1p/PPPBBPPP/R3K2R w KQkq - 0 1",
    "r3k2r/8/8/8/8/8/8/R3K2R w KQkq - 0 1", "r3k2r/8/8/8/8/8/8/R3K2R b Qq - 3 9", "r3k2r/8/8/8/8/8/8/R3K2R w Kk - 0 1",
    "8/P5k1/8/3pP3/8/8/6p1/K6R w - d6 0 90", "8/P6k/8/8/3pP3/8/6p1/K6R b - e3 0 90", "rnbq1k1r/pp1Pbppp/2p5/8/2B5/8/PPP1NnPP/RNBQK2R w KQ - 1 8",
];

fn walk(board: &mut Bitboard, hash: u64, pawn: u64, depth: u32, line: &mut Vec<String>, bad: &mut usize, root: &str) {
    if depth == 0 { return; }
    for mv in board.generate_legal_moves() {
        let (dx, dp) = Bitboard::zobrist_xor(mv);
        board.make(mv);
        line.push(mv.to_uci_string());
        let (h, p) = (hash ^ dx, pawn ^ dp);
        if h != board.calculate_zobrist_hash() || p != board.calculate_zobrist_pawn_hash() {
            if *bad < 3 { println!("FAILING-INPUT: fen={:?} line={:?}: incremental hash differs from the recomputed one", root, line); }
            *bad += 1;
        } else {
            walk(board, h, p, depth - 1, line, bad, root);
        }
        line.pop();
        board.unmake(mv);
    }
}

#[test]
fn witness_c06_incremental_equals_recomputed() {
    let mut bad = 0;
    for fen in FENS {
        let mut board = Bitboard::from_fen_string_unchecked(fen);
        let (h, p) = (board.calculate_zobrist_hash(), board.calculate_zobrist_pawn_hash());
        walk(&mut board, h, p, 2, &mut Vec::new(), &mut bad, fen);
    }
    assert_eq!(bad, 0, "{} lines with a wrong incremental hash", bad);
}

#[test]
fn witness_c06_clocks_do_not_matter() {
    let a = Bitboard::from_fen_string_unchecked("r3k2r/8/8/8/8/8/8/R3K2R w KQkq - 0 1");
    let b = Bitboard::from_fen_string_unchecked("r3k2r/8/8/8/8/8/8/R3K2R w KQkq - 57 120");
    assert_eq!(a.calculate_zobrist_hash(), b.calculate_zobrist_hash());
    assert_eq!(a.calculate_zobrist_pawn_hash(), b.calculate_zobrist_pawn_hash());
}

/// changing any single component (side to move, one castling right, the en-passant file, one piece) changes the hash
#[test]
fn witness_c06_single_component_changes_the_hash() {
    let bad = std::cell::Cell::new(0u32);
    let h = |fen: &str| Bitboard::from_fen_string_unchecked(fen).calculate_zobrist_hash();
    let ph = |fen: &str| Bitboard::from_fen_string_unchecked(fen).calculate_zobrist_pawn_hash();
    let differ = |a: &str, b: &str, what: &str| {
        if h(a) == h(b) {
            if bad.get() < 8 { println!("FAILING-INPUT: {:?} and {:?} differ in {} but have the same position hash", a, b, what); }
            bad.set(bad.get() + 1);
        }
    };
    // en-passant file, every file, both colours (the capturing pawn stands next to the pushed one)
    for (i, f) in "abcdefgh".chars().enumerate() {
        let nb = if i == 0 { 1 } else { i - 1 };
        let mut r4: Vec<char> = "........".chars().collect();
        r4[i] = 'P'; r4[nb] = 'p';
        let row = |r: &Vec<char>| { let mut s = String::new(); let mut n = 0; for c in r { if *c == '.' { n += 1 } else { if n > 0 { s.push_str(&n.to_string()); n = 0; } s.push(*c); } } if n > 0 { s.push_str(&n.to_string()); } s };
        let w = format!("4k3/8/8/8/{}/8/8/4K3 b - {}3 0 1", row(&r4), f);
        let wn = format!("4k3/8/8/8/{}/8/8/4K3 b - - 0 1", row(&r4));
        differ(&w, &wn, "the en-passant file");
        let mut r5: Vec<char> = "........".chars().collect();
        r5[i] = 'p'; r5[nb] = 'P';
        let b = format!("4k3/8/8/{}/8/8/8/4K3 w - {}6 0 1", row(&r5), f);
        let bn = format!("4k3/8/8/{}/8/8/8/4K3 w - - 0 1", row(&r5));
        differ(&b, &bn, "the en-passant file");
        if ph(&w) == ph(&wn) || ph(&b) == ph(&bn) {
            // the pawn hash includes the en-passant file on the unchanged tree
            println!("FAILING-INPUT: en-passant file {} does not change the pawn hash", f);
            bad.set(bad.get() + 1);
        }
    }
    differ("r3k2r/8/8/8/8/8/8/R3K2R w KQkq - 0 1", "r3k2r/8/8/8/8/8/8/R3K2R b KQkq - 0 1", "the side to move");
    for rights in ["Qkq", "Kkq", "KQq", "KQk"] {
        differ("r3k2r/8/8/8/8/8/8/R3K2R w KQkq - 0 1", &format!("r3k2r/8/8/8/8/8/8/R3K2R w {} - 0 1", rights), "one castling right");
    }
    differ("4k3/8/8/8/8/8/4P3/4K3 w - - 0 1", "4k3/8/8/8/8/4P3/8/4K3 w - - 0 1", "one pawn's square");
    differ("4k3/8/8/8/8/8/4N3/4K3 w - - 0 1", "4k3/8/8/8/8/8/4B3/4K3 w - - 0 1", "one piece's kind");
    differ("4k3/8/8/8/8/8/4N3/4K3 w - - 0 1", "4k3/8/8/8/8/8/4n3/4K3 w - - 0 1", "one piece's colour");
    assert_eq!(bad.get(), 0);
}

/// along deterministic pseudo-random games, for EVERY pseudo-legal move of every position visited (the search applies the
/// delta before it knows whether the move is legal): incremental == recomputed, both hashes; and the hash of a position does
/// not depend on how it was reached (the recomputed hash is compared with the hash of the position re-read from its FEN)
#[test]
fn witness_c06_along_games() {
    let mut bad = 0;
    let mut x: u64 = 0xD1B54A32D192ED03;
    for root in FENS {
        for _game in 0..6 {
            let mut board = Bitboard::from_fen_string_unchecked(root);
            for _ply in 0..60 {
                let (h, p) = (board.calculate_zobrist_hash(), board.calculate_zobrist_pawn_hash());
                let fen = inkayaku_core::fen::Fen::from(&board).fen;
                let reread = Bitboard::from_fen_string_unchecked(&fen);
                if reread.calculate_zobrist_hash() != h || reread.calculate_zobrist_pawn_hash() != p {
                    if bad < 3 { println!("FAILING-INPUT: fen={:?}: the hash of the position reached by play differs from the hash of the same position read from its FEN", fen); }
                    bad += 1;
                }
                let kings_at = |b: &Bitboard| (b.white.kings(), b.black.kings());
                for mv in board.generate_pseudo_legal_moves() {
                    let (dx, dp) = Bitboard::zobrist_xor(mv);
                    let before_kings = kings_at(&board);
                    board.make(mv);
                    if kings_at(&board).0 != 0 && kings_at(&board).1 != 0 {
                        if h ^ dx != board.calculate_zobrist_hash() || p ^ dp != board.calculate_zobrist_pawn_hash() {
                            if bad < 3 { println!("FAILING-INPUT: fen={:?} move {}: incremental hash differs from the recomputed one", fen, mv.to_uci_string()); }
                            bad += 1;
                        }
                    }
                    board.unmake(mv);
                    let _ = before_kings;
                }
                let legal = board.generate_legal_moves();
                if legal.is_empty() { break; }
                x ^= x << 13; x ^= x >> 7; x ^= x << 17;
                board.make(legal[(x % legal.len() as u64) as usize]);
            }
        }
    }
    assert_eq!(bad, 0);
}
