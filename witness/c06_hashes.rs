// witness probe for C06: incremental hash update vs recomputation, clock/move-order independence (public API only).
use inkayaku_board::Bitboard;

const FENS: [&str; 8] = [
    "rnbqkbnr/pppppppp/8/8/8/8/PPPPPPPP/RNBQKBNR w KQkq - 0 1",
    "r3k2r/p1ppqpb1/bn2pnp1/3PN3/1p2P3/2N2Q1p/PPPBBPPP/R3K2R w KQkq - 0 1",
    "r3k2r/8/8/8/8/8/8/R3K2R w KQkq - 0 1", "r3k2r/8/8/8/8/8/8/R3K2R b Qq - 3 9", "r3k2r/8/8/8/8/8/8/R3K2R w Kk - 0 1",
    "8/P5k1/8/3pP3/8/8/6p1/K6R w - d6 0 90", "8/P6k/8/8/3pP3/8/6p1/K6R b - e3 0 90", "rnbq1k1r/pp1Pbppp/2p5/8/2B5/8/PPP1NnPP/RNBQK2R w KQ - 1 8",
];

fn walk(board: &mut Bitboard, hash: u64, pawn: u64, depth: u32, line: &mut Vec<String>, bad: &mut usize, root: &str) {
    if depth == 0 { return; }
    for mv in board.generate_legal_moves() {
        let (dx, dp) = Bitboard::zobrist_xor(mv);
        board.make(mv);
        line.push(mv.to_uci_string());
        let (h, p) = (hash ^ dx, pawn ^ dp);
        if h != board.calculate_zobrist_hash() || p != board.calculate_zobrist_pawn_hash() {
            if *bad < 3 { println!("FAILING-INPUT: fen={:?} line={:?}: incremental hash differs from the recomputed one", root, line); }
            *bad += 1;
        } else {
            walk(board, h, p, depth - 1, line, bad, root);
        }
        line.pop();
        board.unmake(mv);
    }
}

#[test]
fn witness_c06_incremental_equals_recomputed() {
    let mut bad = 0;
    for fen in FENS {
        let mut board = Bitboard::from_fen_string_unchecked(fen);
        let (h, p) = (board.calculate_zobrist_hash(), board.calculate_zobrist_pawn_hash());
        walk(&mut board, h, p, 2, &mut Vec::new(), &mut bad, fen);
    }
    assert_eq!(bad, 0, "{} lines with a wrong incremental hash", bad);
}

#[test]
fn witness_c06_clocks_do_not_matter() {
    let a = Bitboard::from_fen_string_unchecked("r3k2r/8/8/8/8/8/8/R3K2R w KQkq - 0 1");
    let b = Bitboard::from_fen_string_unchecked("r3k2r/8/8/8/8/8/8/R3K2R w KQkq - 57 120");
    assert_eq!(a.calculate_zobrist_hash(), b.calculate_zobrist_hash());
    assert_eq!(a.calculate_zobrist_pawn_hash(), b.calculate_zobrist_pawn_hash());
}
