// witness probe for C13: a rejected move (unknown, malformed or illegal) leaves the position exactly as it was.
use inkayaku_board::Bitboard;
use inkayaku_core::fen::Fen;

fn snap(b: &Bitboard) -> String { Fen::from(b).fen }

const FENS: [&str; 4] = [
    // bishop on g2 pinned against the king on h1 by the bishop... (property text: pinned piece move f1g2-like)
    "4k3/8/8/8/8/8/4r3/3BK3 w - - 0 1",       // Bd1 free, king e1 attacked by Re2? (king must answer) -> many illegal pseudo-legal moves
    "4k3/8/8/8/7b/8/5B2/4K3 w - - 0 1",       // Bf2 pinned by Bh4
    "r3k2r/8/8/8/8/8/4q3/R3K2R w KQkq - 0 1", // in check: castling and most moves illegal
    "4k3/8/8/8/8/8/8/4K2R b - - 0 1",
];

#[test]
fn witness_find_uci_no_side_effect() {
    let mut bad = 0;
    for fen in FENS {
        let mut board = Bitboard::from_fen_string_unchecked(fen);
        let before = snap(&board);
        let pseudo: Vec<String> = board.generate_pseudo_legal_moves().iter().map(|m| m.to_uci_string()).collect();
        let mut candidates = pseudo.clone();
        candidates.extend(["a1a1", "e2e9", "zzzz", "", "e7e8k", "e1e2q"].iter().map(|s| s.to_string()));
        for uci in candidates {
            let res = board.find_uci(&uci);
            let after = snap(&board);
            if after != before {
                if bad < 3 { println!("FAILING-INPUT: fen={:?} find_uci({:?}) -> {:?}, position afterwards {:?}", fen, uci, res.is_ok(), after); }
                bad += 1;
                board = Bitboard::from_fen_string_unchecked(fen);
            }
        }
    }
    assert_eq!(bad, 0, "find_uci changed the position for {} inputs", bad);
}

#[test]
fn witness_make_uci_and_list_all_or_nothing() {
    let mut bad = 0;
    for fen in FENS {
        let mut board = Bitboard::from_fen_string_unchecked(fen);
        let before = snap(&board);
        let legal: Vec<String> = board.generate_legal_moves().iter().map(|m| m.to_uci_string()).collect();
        let pseudo: Vec<String> = board.generate_pseudo_legal_moves().iter().map(|m| m.to_uci_string()).collect();
        for uci in pseudo.iter().filter(|u| !legal.contains(u)) {
            let res = board.make_uci(uci);
            if res.is_ok() || snap(&board) != before {
                if bad < 3 { println!("FAILING-INPUT: fen={:?} make_uci({:?}) ok={} position afterwards {:?}", fen, uci, res.is_ok(), snap(&board)); }
                bad += 1;
                board = Bitboard::from_fen_string_unchecked(fen);
            }
            if let Some(first) = legal.first() {
                let list = vec![first.clone(), "a1a1".to_string()];
                let res = board.make_all_uci(&list);
                if res.is_ok() || snap(&board) != before {
                    if bad < 3 { println!("FAILING-INPUT: fen={:?} make_all_uci({:?}) position afterwards {:?}", fen, list, snap(&board)); }
                    bad += 1;
                    board = Bitboard::from_fen_string_unchecked(fen);
                }
            }
        }
    }
    assert_eq!(bad, 0);
}

#[test]
fn witness_uci_to_pgn_no_side_effect() {
    let mut bad = 0;
    for fen in FENS {
        let mut board = Bitboard::from_fen_string_unchecked(fen);
        let before = snap(&board);
        let pseudo: Vec<String> = board.generate_pseudo_legal_moves().iter().map(|m| m.to_uci_string()).collect();
        let mut candidates = pseudo.clone();
        candidates.extend(["a1a1", "zzzz"].iter().map(|s| s.to_string()));
        for uci in candidates {
            let res = board.uci_to_pgn(&uci);
            let after = snap(&board);
            if after != before {
                if bad < 3 { println!("FAILING-INPUT: fen={:?} uci_to_pgn({:?}) ok={} position afterwards {:?}", fen, uci, res.is_ok(), after); }
                bad += 1;
                board = Bitboard::from_fen_string_unchecked(fen);
            }
        }
    }
    assert_eq!(bad, 0, "uci_to_pgn changed the position for {} inputs", bad);
}
