// witness probe for C13: a rejected move (unknown, malformed or illegal) leaves the position exactly as it was.
use inkayaku_board::Bitboard;
use inkayaku_core::fen::Fen;

fn snap(b: &Bitboard) -> String { Fen::from(b).fen }

const FENS: [&str; 6] = [
    "4k3/8/8/8/7b/8/5B2/4K3 w - - 130 200",   // large half-move clock: the probe's make/unmake must restore it
    "r3k2r/8/8/8/8/8/4q3/R3K2R w KQkq - 300 400",
    // bishop on g2 pinned against the king on h1 by the bishop... (property text: pinned piece move f1g2-like)
    "4k3/8/8/8/8/8/4r3/3BK3 w - - 0 1",       // Bd1 free, king e1 attacked by Re2? (king must answer) -> many illegal pseudo-legal moves
    "4k3/8/8/8/7b/8/5B2/4K3 w - - 0 1",       // Bf2 pinned by Bh4
    "r3k2r/8/8/8/8/8/4q3/R3K2R w KQkq - 0 1", // in check: castling and most moves illegal
    "4k3/8/8/8/8/8/8/4K2R b - - 0 1",
];

#[test]
fn witness_find_uci_no_side_effect() {
    let mut bad = 0;
    for fen in FENS {
        let mut board = Bitboard::from_fen_string_unchecked(fen);
        let before = snap(&board);
        let pseudo: Vec<String> = board.generate_pseudo_legal_moves().iter().map(|m| m.to_uci_string()).collect();
        let mut candidates = pseudo.clone();
        candidates.extend(["a1a1", "e2e9", "zzzz", "", "e7e8k", "e1e2q"].iter().map(|s| s.to_string()));
        for uci in candidates {
            let res = board.find_uci(&uci);
            let after = snap(&board);
            if after != before {
                if bad < 3 { println!("FAILING-INPUT: fen={:?} find_uci({:?}) -> {:?}, position afterwards {:?}", fen, uci, res.is_ok(), after); }
                bad += 1;
                board = Bitboard::from_fen_string_unchecked(fen);
            }
        }
    }
    assert_eq!(bad, 0, "find_uci changed the position for {} inputs", bad);
}

#[test]
fn witness_make_uci_and_list_all_or_nothing() {
    let mut bad = 0;
    for fen in FENS {
        let mut board = Bitboard::from_fen_string_unchecked(fen);
        let before = snap(&board);
        let legal: Vec<String> = board.generate_legal_moves().iter().map(|m| m.to_uci_string()).collect();
        let pseudo: Vec<String> = board.generate_pseudo_legal_moves().iter().map(|m| m.to_uci_string()).collect();
        for uci in pseudo.iter().filter(|u| !legal.contains(u)) {
            let res = board.make_uci(uci);
            if res.is_ok() || snap(&board) != before {
                if bad < 3 { println!("FAILING-INPUT: fen={:?} make_uci({:?}) ok={} position afterwards {:?}", fen, uci, res.is_ok(), snap(&board)); }
                bad += 1;
                board = Bitboard::from_fen_string_unchecked(fen);
            }
            if let Some(first) = legal.first() {
                let list = vec![first.clone(), "a1a1".to_string()];
                let res = board.make_all_uci(&list);
                if res.is_ok() || snap(&board) != before {
                    if bad < 3 { println!("FAILING-INPUT: fen={:?} make_all_uci({:?}) position afterwards {:?}", fen, list, snap(&board)); }
                    bad += 1;
                    board = Bitboard::from_fen_string_unchecked(fen);
                }
            }
        }
    }
    assert_eq!(bad, 0);
}

#[test]
fn witness_uci_to_pgn_no_side_effect() {
    let mut bad = 0;
    for fen in FENS {
        let mut board = Bitboard::from_fen_string_unchecked(fen);
        let before = snap(&board);
        let pseudo: Vec<String> = board.generate_pseudo_legal_moves().iter().map(|m| m.to_uci_string()).collect();
        let mut candidates = pseudo.clone();
        candidates.extend(["a1a1", "zzzz"].iter().map(|s| s.to_string()));
        for uci in candidates {
            let res = board.uci_to_pgn(&uci);
            let after = snap(&board);
            if after != before {
                if bad < 3 { println!("FAILING-INPUT: fen={:?} uci_to_pgn({:?}) ok={} position afterwards {:?}", fen, uci, res.is_ok(), after); }
                bad += 1;
                board = Bitboard::from_fen_string_unchecked(fen);
            }
        }
    }
    assert_eq!(bad, 0, "uci_to_pgn changed the position for {} inputs", bad);
}

// ---- independent legality reference: play the pseudo-legal move with `make`, read the placement back through the
// FEN writer and test with a mailbox scan whether the mover's king is attacked (no engine attack code involved) ----
fn grid(fen: &str) -> [[char; 8]; 8] {
    let mut g = [['.'; 8]; 8];
    for (r, row) in fen.split(' ').next().unwrap().split('/').enumerate() {
        let mut f = 0usize;
        for ch in row.chars() {
            if let Some(d) = ch.to_digit(10) { f += d as usize; } else { g[r][f] = ch; f += 1; }
        }
    }
    g
}
fn attacked(g: &[[char; 8]; 8], r: i32, f: i32, by_white: bool) -> bool {
    let at = |rr: i32, ff: i32| -> Option<char> { if (0..8).contains(&rr) && (0..8).contains(&ff) { Some(g[rr as usize][ff as usize]) } else { None } };
    let mine = |c: char, k: char| -> bool { if by_white { c == k.to_ascii_uppercase() } else { c == k } };
    for (dr, df) in [(1, 2), (2, 1), (-1, 2), (-2, 1), (1, -2), (2, -1), (-1, -2), (-2, -1)] {
        if let Some(c) = at(r + dr, f + df) { if mine(c, 'n') { return true; } }
    }
    for dr in -1..=1 { for df in -1..=1 { if (dr, df) != (0, 0) { if let Some(c) = at(r + dr, f + df) { if mine(c, 'k') { return true; } } } } }
    // row index grows downwards (rank 8 is row 0): a white pawn attacks upwards, i.e. sits one row BELOW its target
    let pr = if by_white { r + 1 } else { r - 1 };
    for df in [-1, 1] { if let Some(c) = at(pr, f + df) { if mine(c, 'p') { return true; } } }
    for (dr, df, kinds) in [(1, 0, "rq"), (-1, 0, "rq"), (0, 1, "rq"), (0, -1, "rq"), (1, 1, "bq"), (1, -1, "bq"), (-1, 1, "bq"), (-1, -1, "bq")] {
        let (mut rr, mut ff) = (r + dr, f + df);
        while let Some(c) = at(rr, ff) {
            if c != '.' { if kinds.chars().any(|k| mine(c, k)) { return true; } break; }
            rr += dr; ff += df;
        }
    }
    false
}
fn king_attacked(fen: &str, white_king: bool) -> bool {
    let g = grid(fen);
    for r in 0..8 { for f in 0..8 { if g[r][f] == (if white_king { 'K' } else { 'k' }) { return attacked(&g, r as i32, f as i32, !white_king); } } }
    true
}

const TRICKY: [&str; 12] = [
    "8/8/8/KPp4r/8/8/8/4k3 w - c6 0 1",            // en passant removes both pawns from the king's rank
    "4K3/8/8/8/kpP4R/8/8/8 b - c3 0 1",
    "7b/8/8/3Pp3/8/8/8/K6k w - e6 0 1",            // the pawn captured en passant is the only blocker on a diagonal
    "k7/8/8/8/3pP3/8/8/4K2B b - e3 0 1",
    "7b/8/8/4pP2/8/8/8/K6k w - e6 0 1",
    "4k3/8/8/3Pp3/8/8/8/4K3 w - e6 0 1",           // legal en passant
    "4k3/8/8/8/7b/8/5B2/4K3 w - - 0 1",            // pinned bishop may move along the pin only
    "4k3/4r3/8/8/8/8/4N3/4K3 w - - 0 1",           // pinned knight
    "r3k2r/8/8/8/8/8/4q3/R3K2R w KQkq - 0 1",      // in check
    "r3k2r/8/8/8/8/5n2/8/R3K2R w KQkq - 0 1",      // knight check, castling rights present
    "r3k2r/8/8/8/8/8/6r1/R3K2R w KQkq - 0 1",      // g2 rook guards g1/f... : castling through attacked squares
    "4k3/8/8/8/1b6/8/3P4/4K3 w - - 0 1",           // pinned pawn: push illegal
];

#[test]
fn witness_find_uci_accepts_exactly_the_legal_moves() {
    let mut bad = 0;
    for fen in TRICKY {
        let mut board = Bitboard::from_fen_string_unchecked(fen);
        let white = fen.split(' ').nth(1) == Some("w");
        let before = snap(&board);
        for mv in board.generate_pseudo_legal_moves() {
            let uci = mv.to_uci_string();
            board.make(mv);
            let legal = !king_attacked(&snap(&board), white);
            board.unmake(mv);
            let res = board.find_uci(&uci);
            if res.is_ok() != legal || snap(&board) != before {
                if bad < 5 { println!("FAILING-INPUT: fen={:?} find_uci({:?}) ok={} but the move is {} (position afterwards {:?})", fen, uci, res.is_ok(), if legal { "legal" } else { "illegal: it leaves the mover's king attacked" }, snap(&board)); }
                bad += 1;
                board = Bitboard::from_fen_string_unchecked(fen);
            }
        }
    }
    assert_eq!(bad, 0);
}

#[test]
fn witness_is_move_legal_and_any() {
    let mut bad = 0;
    for fen in TRICKY {
        let mut board = Bitboard::from_fen_string_unchecked(fen);
        let white = fen.split(' ').nth(1) == Some("w");
        let before = snap(&board);
        let pseudo = board.generate_pseudo_legal_moves();
        let mut any = false;
        for &mv in &pseudo {
            board.make(mv);
            let legal = !king_attacked(&snap(&board), white);
            board.unmake(mv);
            any = any || legal;
            let got = board.is_move_legal(mv);
            if got != legal || snap(&board) != before {
                if bad < 5 { println!("FAILING-INPUT: fen={:?} is_move_legal({}) = {} but the move is {} (position afterwards {:?})", fen, mv.to_uci_string(), got, if legal { "legal" } else { "illegal" }, snap(&board)); }
                bad += 1;
                board = Bitboard::from_fen_string_unchecked(fen);
            }
        }
        let got = board.is_any_move_legal(&pseudo);
        if got != any || snap(&board) != before {
            if bad < 5 { println!("FAILING-INPUT: fen={:?} is_any_move_legal(all pseudo-legal moves) = {} expected {} (position afterwards {:?})", fen, got, any, snap(&board)); }
            bad += 1;
        }
    }
    // a mated and a stalemated position: no move is legal
    for fen in ["6k1/8/8/8/8/8/5PPP/3r2K1 w - - 0 1", "7k/5Q2/6K1/8/8/8/8/8 b - - 0 1"] {
        let mut board = Bitboard::from_fen_string_unchecked(fen);
        let pseudo = board.generate_pseudo_legal_moves();
        if board.is_any_move_legal(&pseudo) {
            println!("FAILING-INPUT: fen={:?} is_any_move_legal = true in a position without legal moves", fen);
            bad += 1;
        }
    }
    assert_eq!(bad, 0);
}

/// the move selected is the one the text denotes: find_uci(t) answers Ok(m) only with m.to_uci_string() == t (trimmed); a
/// promotion letter on a move that does not promote, a missing letter on one that does, and a king "promotion" are rejected
#[test]
fn witness_find_uci_selects_the_move_the_text_denotes() {
    let mut bad = 0;
    let fens = ["rnbqkbnr/pppppppp/8/8/8/8/PPPPPPPP/RNBQKBNR w KQkq - 0 1", "3q4/2P5/8/8/4Q2Q/k7/8/K6Q w - - 0 1", "8/8/8/8/8/k7/4p3/K7 b - - 0 1",
                "r3k2r/8/8/8/8/8/8/R3K2R w KQkq - 0 1", "r3k2r/8/8/8/8/8/8/R3K2R b KQkq - 0 1",
                // pieces on the other side's king square moving to a corner while castling rights exist
                "4R2r/1k6/8/8/8/8/8/4K2R w K - 0 1", "r3R3/1k6/8/8/8/8/8/R3K3 w Q - 0 1", "r3k3/8/8/8/8/8/6K1/R3q3 b q - 0 1", "4k2r/8/8/8/8/8/6K1/4q2R b k - 0 1"];
    for fen in fens {
        let mut board = Bitboard::from_fen_string_unchecked(fen);
        let before = snap(&board);
        let texts: Vec<String> = board.generate_pseudo_legal_moves().iter().map(|m| m.to_uci_string()).collect();
        let mut candidates: Vec<String> = Vec::new();
        for t in &texts {
            candidates.push(t.clone());
            candidates.push(format!(" {} ", t));
            if t.len() == 4 { for p in ["q", "r", "b", "n", "k", "p"] { candidates.push(format!("{}{}", t, p)); } }
            if t.len() == 5 { candidates.push(t[..4].to_string()); candidates.push(format!("{}k", &t[..4])); candidates.push(format!("{}x", t)); }
        }
        for extra in ["e1h1", "e1a1", "e8h8", "e8a8", "e1g1", "e1c1", "e8g8", "e8c8"] { candidates.push(extra.to_string()); }
        for c in candidates {
            let res = board.find_uci(&c);
            let denotes_a_generated_move = texts.iter().any(|t| t == c.trim());
            match &res {
                Ok(m) if m.to_uci_string() != c.trim() => {
                    if bad < 5 { println!("FAILING-INPUT: fen={:?} find_uci({:?}) answered with the move {}", fen, c, m.to_uci_string()); }
                    bad += 1;
                }
                Ok(_) if !denotes_a_generated_move => { bad += 1; }
                _ => {}
            }
            if snap(&board) != before { bad += 1; board = Bitboard::from_fen_string_unchecked(fen); }
            if !denotes_a_generated_move {
                let r2 = board.make_uci(&c);
                if r2.is_ok() || snap(&board) != before {
                    if bad < 5 { println!("FAILING-INPUT: fen={:?} make_uci({:?}) was applied although no move has that text (position afterwards {:?})", fen, c, snap(&board)); }
                    bad += 1;
                    board = Bitboard::from_fen_string_unchecked(fen);
                }
            }
        }
    }
    assert_eq!(bad, 0);
}

/// "the board applies it exactly when it denotes a legal move": near-miss spellings of every legal move — file letters or rank
/// digits pushed off the board by 8 (`i3i5` for `a2a4`), upper case, a stray extra character, a promotion letter where none
/// belongs — denote no move and must be rejected with the position unchanged (unless the spelling happens to be another legal move)
#[test]
fn witness_find_uci_near_miss_spellings_are_rejected() {
    let mut bad = 0;
    let start = "rnbqkbnr/pppppppp/8/8/8/8/PPPPPPPP/RNBQKBNR w KQkq - 0 1";
    let promo = "4k3/P6P/8/8/8/8/p6p/4K3 w - - 0 1";
    for fen in FENS.iter().copied().chain([start, promo, "rnbqkbnr/pppp1ppp/8/4p3/4P3/8/PPPP1PPP/RNBQKBNR w KQkq e6 0 2"]) {
        let mut board = Bitboard::from_fen_string_unchecked(fen);
        let before = snap(&board);
        let legal: Vec<String> = board.generate_legal_moves().iter().map(|m| m.to_uci_string()).collect();
        let mut candidates: Vec<String> = Vec::new();
        for mv in &legal {
            let c: Vec<char> = mv.chars().collect();
            let up = |ch: char, by: u8| char::from(ch as u8 + by);
            let down = |ch: char, by: u8| char::from(ch as u8 - by);
            for which in 1..16u32 {           // every non-empty subset of the four coordinate characters
                for dir in [8i32, -8, 16] {
                    let mut d = c.clone();
                    let mut okay = true;
                    for k in 0..4 { if which & (1 << k) != 0 {
                        let b = d[k] as i32 + dir;
                        if !(33..127).contains(&b) { okay = false; break; }
                        d[k] = if dir > 0 { up(d[k], dir as u8) } else { down(d[k], (-dir) as u8) };
                    } }
                    if okay { candidates.push(d.iter().collect()); }
                }
            }
            candidates.push(mv.to_uppercase());
            candidates.push(format!("{}x", mv));
            candidates.push(format!("{}{}", &mv[..2], &mv[2..4]).chars().rev().collect());   // reversed text
            if c.len() == 4 { for p in ['q', 'r', 'b', 'n', 'k', 'p'] { candidates.push(format!("{}{}", mv, p)); } }
            if c.len() == 5 { candidates.push(mv[..4].to_string()); candidates.push(format!("{}k", &mv[..4])); candidates.push(format!("{}Q", &mv[..4])); }
        }
        for uci in candidates {
            if legal.contains(&uci.trim().to_string()) { continue; }
            let res = board.make_uci(&uci);
            let after = snap(&board);
            if res.is_ok() || after != before {
                if bad < 4 { println!("FAILING-INPUT: fen={:?} make_uci({:?}) -> ok={}, position afterwards {:?}; the string denotes no legal move of the position", fen, uci, res.is_ok(), after); }
                bad += 1;
                board = Bitboard::from_fen_string_unchecked(fen);
            }
        }
    }
    assert_eq!(bad, 0);
}

/// "applying a list of moves is all-or-nothing … error at any index": lists of 0..5 accepted moves (both colours move, the
/// full-move number, clocks, rights and e.p. square change on the way) followed by a rejected one; afterwards the position
/// — every field of it — is the one before the call
#[test]
fn witness_make_uci_list_rejected_at_any_index() {
    let mut bad = 0;
    let mut x: u64 = 0x9E3779B97F4A7C15;
    for fen in FENS.iter().copied().chain(["rnbqkbnr/pppppppp/8/8/8/8/PPPPPPPP/RNBQKBNR w KQkq - 0 1", "r3k2r/pppq1ppp/2npbn2/2b1p3/2B1P3/2NPBN2/PPPQ1PPP/R3K2R b KQkq - 7 19",
                                           "8/P5k1/8/3pP3/8/8/6p1/K6R w - d6 0 90"]) {
        for k in 0..6usize {
            for round in 0..3 {
                let mut board = Bitboard::from_fen_string_unchecked(fen);
                let before = snap(&board);
                // a random legal line of length k, played on a scratch board to collect the texts
                let mut line: Vec<String> = Vec::new();
                let mut scratch = Bitboard::from_fen_string_unchecked(fen);
                for _ in 0..k {
                    let legal = scratch.generate_legal_moves();
                    if legal.is_empty() { break; }
                    x ^= x << 13; x ^= x >> 7; x ^= x << 17;
                    let mv = legal[(x % legal.len() as u64) as usize];
                    line.push(mv.to_uci_string());
                    scratch.make(mv);
                }
                // the rejected move: unknown text, or a pseudo-legal move that leaves the king attacked when there is one
                let legal: Vec<String> = scratch.generate_legal_moves().iter().map(|m| m.to_uci_string()).collect();
                let illegal = scratch.generate_pseudo_legal_moves().iter().map(|m| m.to_uci_string()).find(|u| !legal.contains(u));
                let rejected = match (round, illegal) { (0, _) => "a1a1".to_string(), (1, Some(u)) => u, (1, None) => "e9e9".to_string(), _ => "zzzz".to_string() };
                line.push(rejected);
                let res = board.make_all_uci(&line);
                let after = snap(&board);
                if res.is_ok() || after != before {
                    if bad < 4 { println!("FAILING-INPUT: fen={:?} make_all_uci({:?}) -> ok={}: position afterwards {:?}, before {:?}", fen, line, res.is_ok(), after, before); }
                    bad += 1;
                }
            }
        }
    }
    assert_eq!(bad, 0);
}
