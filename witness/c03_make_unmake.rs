// witness probe for C03: make followed by unmake restores the position (public API of the real crate only).
// Prints `FAILING-INPUT: ...` for every (FEN, move) whose round trip differs.
use inkayaku_board::Bitboard;
use inkayaku_core::fen::Fen;

fn snapshot(b: &Bitboard) -> (String, u64, u64) {
    (Fen::from(b).fen, b.calculate_zobrist_hash(), b.calculate_zobrist_pawn_hash())
}

fn round_trip(fen: &str) -> usize {
    let mut board = Bitboard::from_fen_string_unchecked(fen);
    let before = snapshot(&board);
    let mut bad = 0;
    for mv in board.generate_pseudo_legal_moves() {
        board.make(mv);
        board.unmake(mv);
        let after = snapshot(&board);
        if after != before {
            if bad < 2 {
                println!("FAILING-INPUT: fen={:?} move={} after-unmake={:?}", fen, mv.to_uci_string(), after.0);
            }
            bad += 1;
            board = Bitboard::from_fen_string_unchecked(fen);
        }
    }
    bad
}

#[test]
fn witness_roundtrip_clock_values() {
    let mut bad = 0;
    for clock in [0u32, 1, 49, 99, 100, 127, 128, 129, 130, 255, 256, 1000, 2047, 2048, 4095] {
        for fen in [
            format!("r3k2r/pppq1ppp/2n2n2/3pp3/3PP3/2N2N2/PPPQ1PPP/R3K2R w KQkq - {} 200", clock),
            format!("r3k2r/pppq1ppp/2n2n2/3pp3/3PP3/2N2N2/PPPQ1PPP/R3K2R b KQkq - {} 200", clock),
            format!("8/P5k1/8/3pP3/8/8/6p1/K6R w - d6 {} 90", clock),
            format!("8/P6k/8/8/3pP3/8/6p1/K6R b - e3 {} 90", clock),
        ] {
            bad += round_trip(&fen);
        }
    }
    assert_eq!(bad, 0, "make/unmake round trip changed the position for {} (position, move) pairs", bad);
}

/// any full-move number: the round trip and the successor's move number at ordinary, large and very large move numbers
#[test]
fn witness_roundtrip_fullmove_numbers() {
    let mut bad = 0;
    for full in [1u32, 2, 57, 1000, 32767, 32768, 32769, 40000, 65535, 65536, 100000, 3000000] {
        for fen in [
            format!("r3k2r/pppq1ppp/2n2n2/3pp3/3PP3/2N2N2/PPPQ1PPP/R3K2R w KQkq - 7 {}", full),
            format!("r3k2r/pppq1ppp/2n2n2/3pp3/3PP3/2N2N2/PPPQ1PPP/R3K2R b KQkq - 8 {}", full),
            format!("8/P5k1/8/3pP3/8/8/6p1/K6R w - d6 0 {}", full),
        ] {
            bad += round_trip(&fen);
            // the successor's full-move number: unchanged after a white move, +1 after a black move
            let mut board = Bitboard::from_fen_string_unchecked(&fen);
            let white = fen.split(' ').nth(1) == Some("w");
            for mv in board.generate_pseudo_legal_moves() {
                board.make(mv);
                let after = Fen::from(&board).fen;
                let got: u64 = after.split(' ').nth(5).unwrap().parse().unwrap();
                let expect = full as u64 + if white { 0 } else { 1 };
                if got != expect {
                    if bad < 5 { println!("FAILING-INPUT: fen={:?} after {} the full-move number is {} (expected {})", fen, mv.to_uci_string(), got, expect); }
                    bad += 1;
                }
                board.unmake(mv);
            }
        }
    }
    assert_eq!(bad, 0);
}
