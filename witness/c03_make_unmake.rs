// witness probe for C03: make followed by unmake restores the position (public API of the real crate only).
// Prints `FAILING-INPUT: ...` for every (FEN, move) whose round trip differs.
use inkayaku_board::Bitboard;
use inkayaku_core::fen::Fen;

fn snapshot(b: &Bitboard) -> (String, u64, u64) {
    (Fen::from(b).fen, b.calculate_zobrist_hash(), b.calculate_zobrist_pawn_hash())
}

fn round_trip(fen: &str) -> usize {
    let mut board = Bitboard::from_fen_string_unchecked(fen);
    let before = snapshot(&board);
    let mut bad = 0;
    for mv in board.generate_pseudo_legal_moves() {
        board.make(mv);
        board.unmake(mv);
        let after = snapshot(&board);
        if after != before {
            if bad < 2 {
                println!("FAILING-INPUT: fen={:?} move={} after-unmake={:?}", fen, mv.to_uci_string(), after.0);
            }
            bad += 1;
            board = Bitboard::from_fen_string_unchecked(fen);
        }
    }
    bad
}

#[test]
fn witness_roundtrip_clock_values() {
    let mut bad = 0;
    for clock in [0u32, 1, 49, 99, 100, 127, 128, 129, 130, 255, 256, 1000, 2047, 2048, 4095] {
        for fen in [
            format!("r3k2r/pppq1ppp/2n2n2/3pp3/3PP3/2N2N2/PPPQ1PPP/R3K2R w KQkq - {} 200", clock),
            format!("r3k2r/pppq1ppp/2n2n2/3pp3/3PP3/2N2N2/PPPQ1PPP/R3K2R b KQkq - {} 200", clock),
            format!("8/P5k1/8/3pP3/8/8/6p1/K6R w - d6 {} 90", clock),
            format!("8/P6k/8/8/3pP3/8/6p1/K6R b - e3 {} 90", clock),
        ] {
            bad += round_trip(&fen);
        }
    }
    assert_eq!(bad, 0, "make/unmake round trip changed the position for {} (position, move) pairs", bad);
}

/// any full-move number: the round trip and the successor's move number at ordinary, large and very large move numbers
#[test]
fn witness_roundtrip_fullmove_numbers() {
    let mut bad = 0;
    for full in [1u32, 2, 57, 1000, 32767, 32768, 32769, 40000, 65535, 65536, 100000, 3000000] {
        for fen in [
            format!("r3k2r/pppq1ppp/2n2n2/3pp3/3PP3/2N2N2/PPPQ1PPP/R3K2R w KQkq - 7 {}", full),
            format!("r3k2r/pppq1ppp/2n2n2/3pp3/3PP3/2N2N2/PPPQ1PPP/R3K2R b KQkq - 8 {}", full),
            format!("8/P5k1/8/3pP3/8/8/6p1/K6R w - d6 0 {}", full),
        ] {
            bad += round_trip(&fen);
            // the successor's full-move number: unchanged after a white move, +1 after a black move
            let mut board = Bitboard::from_fen_string_unchecked(&fen);
            let white = fen.split(' ').nth(1) == Some("w");
            for mv in board.generate_pseudo_legal_moves() {
                board.make(mv);
                let after = Fen::from(&board).fen;
                let got: u64 = after.split(' ').nth(5).unwrap().parse().unwrap();
                let expect = full as u64 + if white { 0 } else { 1 };
                if got != expect {
                    if bad < 5 { println!("FAILING-INPUT: fen={:?} after {} the full-move number is {} (expected {})", fen, mv.to_uci_string(), got, expect); }
                    bad += 1;
                }
                board.unmake(mv);
            }
        }
    }
    assert_eq!(bad, 0);
}

// ---- independent successor reference (mailbox, written from the rules): the FEN after playing a move given as UCI text ----
fn ref_successor(fen: &str, uci: &str) -> String {
    let parts: Vec<&str> = fen.split(' ').collect();
    let mut g = [['.'; 8]; 8];
    for (r, row) in parts[0].split('/').enumerate() {
        let mut f = 0usize;
        for ch in row.chars() { if let Some(d) = ch.to_digit(10) { f += d as usize; } else { g[r][f] = ch; f += 1; } }
    }
    let white = parts[1] == "w";
    let b = uci.as_bytes();
    let (ff, fr, tf, tr) = ((b[0] - b'a') as usize, (b'8' - b[1]) as usize, (b[2] - b'a') as usize, (b'8' - b[3]) as usize);
    let piece = g[fr][ff];
    let captured = g[tr][tf];
    let is_pawn = piece.to_ascii_lowercase() == 'p';
    let is_ep = is_pawn && ff != tf && captured == '.';
    g[fr][ff] = '.';
    if is_ep { g[fr][tf] = '.'; }
    g[tr][tf] = if uci.len() == 5 { let p = b[4] as char; if white { p.to_ascii_uppercase() } else { p } } else { piece };
    if piece.to_ascii_lowercase() == 'k' && ff == 4 && (tf == 6 || tf == 2) && fr == tr {
        if tf == 6 { g[fr][5] = g[fr][7]; g[fr][7] = '.'; } else { g[fr][3] = g[fr][0]; g[fr][0] = '.'; }
    }
    // rights: lost when the king moves, when a rook leaves its corner, when something lands on a rook's corner
    let mut rights: Vec<char> = parts[2].chars().filter(|c| *c != '-').collect();
    let mut lose = |c: char, rights: &mut Vec<char>| rights.retain(|x| *x != c);
    if piece == 'K' { lose('K', &mut rights); lose('Q', &mut rights); }
    if piece == 'k' { lose('k', &mut rights); lose('q', &mut rights); }
    for (r, f, c) in [(7usize, 0usize, 'Q'), (7, 7, 'K'), (0, 0, 'q'), (0, 7, 'k')] {
        if (fr, ff) == (r, f) || (tr, tf) == (r, f) { lose(c, &mut rights); }
    }
    let rights_s = if rights.is_empty() { "-".to_string() } else { rights.into_iter().collect() };
    let ep = if is_pawn && (fr as i32 - tr as i32).abs() == 2 { format!("{}{}", (b'a' + ff as u8) as char, 8 - (fr + tr) / 2) } else { "-".to_string() };
    let half: u64 = parts[4].parse().unwrap();
    let full: u64 = parts[5].parse().unwrap();
    let half2 = if is_pawn || captured != '.' { 0 } else { half + 1 };
    let full2 = if white { full } else { full + 1 };
    let mut rows = Vec::new();
    for r in 0..8 { let mut s = String::new(); let mut n = 0; for f in 0..8 { if g[r][f] == '.' { n += 1; } else { if n > 0 { s.push_str(&n.to_string()); n = 0; } s.push(g[r][f]); } } if n > 0 { s.push_str(&n.to_string()); } rows.push(s); }
    format!("{} {} {} {} {} {}", rows.join("/"), if white { "b" } else { "w" }, rights_s, ep, half2, full2)
}

/// C02/C03 along deterministic pseudo-random games: every pseudo-legal move's successor equals the reference successor and
/// unmaking it restores the position (FEN and both hashes)
#[test]
fn witness_successor_and_roundtrip_along_games() {
    let mut bad = 0usize;
    let mut x: u64 = 0x2545F4914F6CDD1D;
    for root in ["rnbqkbnr/pppppppp/8/8/8/8/PPPPPPPP/RNBQKBNR w KQkq - 0 1",
                 "r3k2r/p1ppqpb1/bn2pnp1/3PN3/1p2P3/2N2Q1p/PPPBBPPP/R3K2R w KQkq - 0 1",
                 "r3k2r/8/8/8/8/8/8/R3K2R w KQkq - 3 20", "8/P5k1/8/3pP3/8/8/6p1/K6R w - d6 0 90",
                 "rnbq1k1r/pp1Pbppp/2p5/8/2B5/8/PPP1NnPP/RNBQK2R w KQ - 1 8"] {
        for _game in 0..12 {
            let mut board = Bitboard::from_fen_string_unchecked(root);
            for _ply in 0..50 {
                let fen = Fen::from(&board).fen;
                let before = snapshot(&board);
                let mut all_moves = board.generate_pseudo_legal_moves();
                all_moves.extend(board.generate_pseudo_legal_non_quiescent_moves());    // the capture/promotion generator encodes moves too
                for mv in all_moves {
                    let uci = mv.to_uci_string();
                    let captured_king = { let t = uci.as_bytes(); let (tf, tr) = ((t[2] - b'a') as usize, (b'8' - t[3]) as usize); fen.split(' ').next().unwrap().split('/').nth(tr).map(|row| { let mut f = 0usize; let mut c = '.'; for ch in row.chars() { if let Some(d) = ch.to_digit(10) { f += d as usize; } else { if f == tf { c = ch; } f += 1; } } c }).unwrap_or('.').to_ascii_lowercase() == 'k' };
                    if captured_king { continue; }
                    board.make(mv);
                    let got = Fen::from(&board).fen;
                    let expect = ref_successor(&fen, &uci);
                    if got != expect {
                        if bad < 5 { println!("FAILING-INPUT: fen={:?} move {}: successor {:?}, the rules give {:?}", fen, uci, got, expect); }
                        bad += 1;
                    }
                    board.unmake(mv);
                    if snapshot(&board) != before {
                        if bad < 5 { println!("FAILING-INPUT: fen={:?} move {}: make+unmake gives {:?}", fen, uci, Fen::from(&board).fen); }
                        bad += 1;
                        board = Bitboard::from_fen_string_unchecked(&fen);
                    }
                }
                let legal = board.generate_legal_moves();
                if legal.is_empty() { break; }
                x ^= x << 13; x ^= x >> 7; x ^= x << 17;
                board.make(legal[(x % legal.len() as u64) as usize]);
            }
        }
    }
    assert_eq!(bad, 0);
}

/// the generators APPEND to the buffer they are given, so a caller may keep the moves of every ply of a line on one
/// stack: entries already on the stack must stay what they were (bit for bit), and taking a move back straight from the
/// stack must restore the position, also after deeper plies were generated behind it
fn walk_shared(board: &mut Bitboard, stack: &mut Vec<inkayaku_board::Move>, depth: usize, quiescent: bool, bad: &mut usize, root: &str) {
    if depth == 0 { return; }
    let start = stack.len();
    let prefix: Vec<u64> = stack.iter().map(|m| m.bits).collect();
    if quiescent { board.generate_pseudo_legal_non_quiescent_moves_with_buffer(stack); } else { board.generate_pseudo_legal_moves_with_buffer(stack); }
    let now: Vec<u64> = stack[..start].iter().map(|m| m.bits).collect();
    if now != prefix {
        if *bad < 3 { println!("FAILING-INPUT: root fen={:?}: generating at {:?} into a buffer that already holds {} moves changed those moves", root, Fen::from(&*board).fen, start); }
        *bad += 1;
    }
    let end = stack.len();
    for i in start..end {
        let before = snapshot(board);
        let mv = stack[i];
        board.make(mv);
        if board.is_valid() { walk_shared(board, stack, depth - 1, quiescent && depth % 2 == 0, bad, root); }
        let mv = stack[i];
        board.unmake(mv);
        let after = snapshot(board);
        if after != before {
            if *bad < 3 { println!("FAILING-INPUT: root fen={:?} shared move stack: taking back {} at {:?} gives {:?}", root, mv.to_uci_string(), before.0, after.0); }
            *bad += 1;
            return;
        }
    }
    stack.truncate(start);
}

#[test]
fn witness_roundtrip_shared_move_stack() {
    let mut bad = 0;
    for fen in [
        "r3k2r/pppq1ppp/2npbn2/2b1p3/2B1P3/2NPBN2/PPPQ1PPP/R3K2R w KQkq - 4 8",
        "rnbqkbnr/ppp1p1pp/8/3pPp2/8/8/PPPP1PPP/RNBQKBNR w KQkq f6 0 3",
        "8/5k2/8/8/8/8/R7/4K3 w - - 130 90",
        "4k3/P6p/8/8/8/8/p6P/4K3 b - - 99 60",
    ] {
        let mut board = Bitboard::from_fen_string_unchecked(fen);
        let before = snapshot(&board);
        let depth = if fen.starts_with("r3k2r") { 2 } else { 3 };
        walk_shared(&mut board, &mut Vec::new(), depth, false, &mut bad, fen);
        walk_shared(&mut board, &mut Vec::new(), 2, true, &mut bad, fen);
        if snapshot(&board) != before { println!("FAILING-INPUT: fen={:?}: root not restored after a shared-stack walk", fen); bad += 1; }
    }
    assert_eq!(bad, 0);
}

/// castling rights around the rooks' home squares: every kind of piece (the king included) capturing an unmoved rook, rooks and
/// kings leaving home, a second rook leaving the far corner — the successor is compared with the rules for every generated move
#[test]
fn witness_successor_rook_home_squares() {
    let mut bad = 0usize;
    for fen in ["4k2r/6K1/8/8/8/8/8/8 w k - 0 40", "r3k3/1K6/8/8/8/8/8/8 w q - 0 40", "8/8/8/8/8/8/1k6/R3K3 b Q - 0 40", "8/8/8/8/8/8/6k1/4K2R b K - 0 40",
                "4k2r/8/6N1/8/8/8/8/4K3 w k - 0 1", "4k2r/8/8/8/3B4/8/8/4K3 w k - 0 1", "4k2r/8/8/8/8/8/8/4K2R w Kk - 0 1", "r3k3/1P6/8/8/8/8/8/4K3 w q - 0 1",
                "r3k2r/8/8/8/8/8/8/R3K2R w KQkq - 0 1", "r3k2r/8/8/8/8/8/8/R3K2R b KQkq - 0 1", "R3k3/8/8/8/8/8/8/R3K3 w Q - 5 40", "4k2r/8/8/8/8/8/8/4K2r b k - 5 40",
                "r3k2r/1Q6/8/8/8/8/6q1/R3K2R w KQkq - 0 1", "r3k2r/1Q6/8/8/8/8/6q1/R3K2R b KQkq - 0 1"] {
        let mut board = Bitboard::from_fen_string_unchecked(fen);
        let before = snapshot(&board);
        let mut all_moves = board.generate_pseudo_legal_moves();
        all_moves.extend(board.generate_pseudo_legal_non_quiescent_moves());
        for mv in all_moves {
            let uci = mv.to_uci_string();
            let t = uci.as_bytes();
            let (tf, tr) = ((t[2] - b'a') as usize, (b'8' - t[3]) as usize);
            let mut grid = Vec::new();
            for row in fen.split(' ').next().unwrap().split('/') { let mut r = Vec::new(); for ch in row.chars() { if let Some(d) = ch.to_digit(10) { for _ in 0..d { r.push('.'); } } else { r.push(ch); } } grid.push(r); }
            if grid[tr][tf] == 'k' || grid[tr][tf] == 'K' { continue; }
            board.make(mv);
            let got = Fen::from(&board).fen;
            let expect = ref_successor(fen, &uci);
            if got != expect {
                if bad < 5 { println!("FAILING-INPUT: fen={:?} move {}: successor {:?}, the rules give {:?}", fen, uci, got, expect); }
                bad += 1;
            }
            board.unmake(mv);
            if snapshot(&board) != before {
                if bad < 5 { println!("FAILING-INPUT: fen={:?} move {}: make+unmake gives {:?}", fen, uci, Fen::from(&board).fen); }
                bad += 1;
                board = Bitboard::from_fen_string_unchecked(fen);
            }
        }
    }
    assert_eq!(bad, 0);
}
