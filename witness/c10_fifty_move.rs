// witness probe for C10 (appended to engine_core/src/engine/heuristic/simple.rs): a non-terminal position is valued
// as a fifty-move draw only once 100 plies have passed without capture or pawn move, never earlier.
#[cfg(test)]
mod verif_witness_c10 {
    use inkayaku_board::Bitboard;
    use crate::engine::heuristic::Heuristic;
    use crate::engine::heuristic::simple::SimpleHeuristic;

    #[test]
    fn verif_witness_c10_threshold() {
        let h = SimpleHeuristic {};
        let mut bad = 0;
        for clock in 0u32..=150 {
            let fen = format!("8/8/8/3k4/8/8/3QK3/8 w - - {} 90", clock);
            let board = Bitboard::from_fen_string_unchecked(&fen);
            let value = h.evaluate(&board, 0, true);
            let ongoing = h.evaluate_ongoing(&board, 0);
            let expected = if clock >= 100 { h.draw_score() } else { ongoing };
            if value != expected {
                if bad < 3 { println!("FAILING-INPUT: fen={:?} evaluate={} expected={}", fen, value, expected); }
                bad += 1;
            }
        }
        assert_eq!(bad, 0, "fifty-move threshold misplaced for {} clock values", bad);
    }

    /// terminal positions: mate is mate and stalemate is stalemate whatever the half-move clock says
    #[test]
    fn verif_witness_c10_terminal() {
        let h = SimpleHeuristic {};
        let mut bad = 0;
        for clock in [0u32, 1, 50, 99, 100, 101, 150] {
            for (fen, expected) in [
                (format!("6k1/8/8/8/8/8/5PPP/3r2K1 w - - {} 80", clock), h.loss_score() + 80),   // white is mated
                (format!("3R2k1/5ppp/8/8/8/8/8/6K1 b - - {} 80", clock), h.win_score() - 80),    // black is mated
                (format!("7k/5Q2/6K1/8/8/8/8/8 b - - {} 80", clock), h.draw_score()),             // black is stalemated
            ] {
                let mut board = Bitboard::from_fen_string_unchecked(&fen);
                assert!(board.generate_legal_moves().is_empty(), "probe position has legal moves: {}", fen);
                let value = h.evaluate(&board, 0, false);
                if value != expected {
                    if bad < 3 { println!("FAILING-INPUT: fen={:?} evaluate(no legal moves)={} expected={}", fen, value, expected); }
                    bad += 1;
                }
            }
        }
        assert_eq!(bad, 0, "terminal positions misvalued {} times", bad);
    }
}
