// witness probe for C01: generate_legal_moves returns exactly the pseudo-legal moves that do not leave the mover's king
// attacked, each once — against an independent mailbox reference, on positions chosen for the rare cases (en passant
// discoveries along rank and diagonal, pins, checks, castling) and along deterministic pseudo-random games.
use inkayaku_board::Bitboard;
use inkayaku_core::fen::Fen;

fn snap(b: &Bitboard) -> String { Fen::from(b).fen }

// ---- independent legality reference: play the pseudo-legal move with `make`, read the placement back through the
// FEN writer and test with a mailbox scan whether the mover's king is attacked (no engine attack code involved) ----
fn grid(fen: &str) -> [[char; 8]; 8] {
    let mut g = [['.'; 8]; 8];
    for (r, row) in fen.split(' ').next().unwrap().split('/').enumerate() {
        let mut f = 0usize;
        for ch in row.chars() {
            if let Some(d) = ch.to_digit(10) { f += d as usize; } else { g[r][f] = ch; f += 1; }
        }
    }
    g
}
fn attacked(g: &[[char; 8]; 8], r: i32, f: i32, by_white: bool) -> bool {
    let at = |rr: i32, ff: i32| -> Option<char> { if (0..8).contains(&rr) && (0..8).contains(&ff) { Some(g[rr as usize][ff as usize]) } else { None } };
    let mine = |c: char, k: char| -> bool { if by_white { c == k.to_ascii_uppercase() } else { c == k } };
    for (dr, df) in [(1, 2), (2, 1), (-1, 2), (-2, 1), (1, -2), (2, -1), (-1, -2), (-2, -1)] {
        if let Some(c) = at(r + dr, f + df) { if mine(c, 'n') { return true; } }
    }
    for dr in -1..=1 { for df in -1..=1 { if (dr, df) != (0, 0) { if let Some(c) = at(r + dr, f + df) { if mine(c, 'k') { return true; } } } } }
    // row index grows downwards (rank 8 is row 0): a white pawn attacks upwards, i.e. sits one row BELOW its target
    let pr = if by_white { r + 1 } else { r - 1 };
    for df in [-1, 1] { if let Some(c) = at(pr, f + df) { if mine(c, 'p') { return true; } } }
    for (dr, df, kinds) in [(1, 0, "rq"), (-1, 0, "rq"), (0, 1, "rq"), (0, -1, "rq"), (1, 1, "bq"), (1, -1, "bq"), (-1, 1, "bq"), (-1, -1, "bq")] {
        let (mut rr, mut ff) = (r + dr, f + df);
        while let Some(c) = at(rr, ff) {
            if c != '.' { if kinds.chars().any(|k| mine(c, k)) { return true; } break; }
            rr += dr; ff += df;
        }
    }
    false
}
fn king_attacked(fen: &str, white_king: bool) -> bool {
    let g = grid(fen);
    for r in 0..8 { for f in 0..8 { if g[r][f] == (if white_king { 'K' } else { 'k' }) { return attacked(&g, r as i32, f as i32, !white_king); } } }
    true
}

const TRICKY: [&str; 16] = [
    "4k3/8/8/6Pp/8/8/8/4K3 w - h6 0 2", "4k3/8/8/8/6pP/8/8/4K3 b - h3 0 1",    // e.p. target on the h-file, read from the FEN
    "4k3/8/8/pP6/8/8/8/4K3 w - a6 0 2", "4k3/8/8/8/Pp6/8/8/4K3 b - a3 0 1",      // ... and on the a-file
    "8/8/8/KPp4r/8/8/8/4k3 w - c6 0 1",            // en passant removes both pawns from the king's rank
    "4K3/8/8/8/kpP4R/8/8/8 b - c3 0 1",
    "7b/8/8/3Pp3/8/8/8/K6k w - e6 0 1",            // the pawn captured en passant is the only blocker on a diagonal
    "k7/8/8/8/3pP3/8/8/4K2B b - e3 0 1",
    "7b/8/8/4pP2/8/8/8/K6k w - e6 0 1",
    "4k3/8/8/3Pp3/8/8/8/4K3 w - e6 0 1",           // legal en passant
    "4k3/8/8/8/7b/8/5B2/4K3 w - - 0 1",            // pinned bishop may move along the pin only
    "4k3/4r3/8/8/8/8/4N3/4K3 w - - 0 1",           // pinned knight
    "r3k2r/8/8/8/8/8/4q3/R3K2R w KQkq - 0 1",      // in check
    "r3k2r/8/8/8/8/5n2/8/R3K2R w KQkq - 0 1",      // knight check, castling rights present
    "r3k2r/8/8/8/8/8/6r1/R3K2R w KQkq - 0 1",      // g2 rook guards g1/f... : castling through attacked squares
    "4k3/8/8/8/1b6/8/3P4/4K3 w - - 0 1",           // pinned pawn: push illegal
];


/// independent move generator (mailbox, written from the rules): all legal moves of the FEN as UCI strings
fn sq_name(r: i32, f: i32) -> String { format!("{}{}", (b'a' + f as u8) as char, 8 - r) }
fn oracle_moves(fen: &str, legal_only: bool) -> Vec<String> {
    let g = grid(fen);
    let parts: Vec<&str> = fen.split(' ').collect();
    let white = parts[1] == "w";
    let rights = parts[2];
    let ep = parts[3];
    let own = |c: char| c != '.' && c.is_ascii_uppercase() == white;
    let opp = |c: char| c != '.' && c.is_ascii_uppercase() != white;
    let inb = |r: i32, f: i32| (0..8).contains(&r) && (0..8).contains(&f);
    let mut cand: Vec<(i32, i32, i32, i32, Option<char>, bool)> = Vec::new();   // from, to, promotion, en passant
    for r in 0..8i32 { for f in 0..8i32 {
        let c = g[r as usize][f as usize];
        if !own(c) { continue; }
        match c.to_ascii_lowercase() {
            'p' => {
                let dir = if white { -1 } else { 1 };
                let start = if white { 6 } else { 1 };
                let last = if white { 0 } else { 7 };
                let mut push = |tr: i32, tf: i32, epf: bool, cand: &mut Vec<(i32, i32, i32, i32, Option<char>, bool)>| {
                    if tr == last { for p in ['q', 'r', 'b', 'n'] { cand.push((r, f, tr, tf, Some(p), epf)); } } else { cand.push((r, f, tr, tf, None, epf)); }
                };
                if inb(r + dir, f) && g[(r + dir) as usize][f as usize] == '.' {
                    push(r + dir, f, false, &mut cand);
                    if r == start && g[(r + 2 * dir) as usize][f as usize] == '.' { push(r + 2 * dir, f, false, &mut cand); }
                }
                for df in [-1, 1] {
                    let (tr, tf) = (r + dir, f + df);
                    if !inb(tr, tf) { continue; }
                    if opp(g[tr as usize][tf as usize]) { push(tr, tf, false, &mut cand); }
                    else if ep != "-" && sq_name(tr, tf) == ep && g[tr as usize][tf as usize] == '.' { push(tr, tf, true, &mut cand); }
                }
            }
            'n' => for (dr, df) in [(1, 2), (2, 1), (-1, 2), (-2, 1), (1, -2), (2, -1), (-1, -2), (-2, -1)] {
                let (tr, tf) = (r + dr, f + df);
                if inb(tr, tf) && !own(g[tr as usize][tf as usize]) { cand.push((r, f, tr, tf, None, false)); }
            },
            'k' => for dr in -1..=1 { for df in -1..=1 {
                let (tr, tf) = (r + dr, f + df);
                if (dr, df) != (0, 0) && inb(tr, tf) && !own(g[tr as usize][tf as usize]) { cand.push((r, f, tr, tf, None, false)); }
            } },
            k => {
                let dirs: &[(i32, i32)] = match k { 'r' => &[(1, 0), (-1, 0), (0, 1), (0, -1)], 'b' => &[(1, 1), (1, -1), (-1, 1), (-1, -1)],
                    _ => &[(1, 0), (-1, 0), (0, 1), (0, -1), (1, 1), (1, -1), (-1, 1), (-1, -1)] };
                for (dr, df) in dirs {
                    let (mut tr, mut tf) = (r + dr, f + df);
                    while inb(tr, tf) {
                        let t = g[tr as usize][tf as usize];
                        if own(t) { break; }
                        cand.push((r, f, tr, tf, None, false));
                        if t != '.' { break; }
                        tr += dr; tf += df;
                    }
                }
            }
        }
    } }
    let mut out = Vec::new();
    for (r, f, tr, tf, promo, epf) in cand {
        let mut h = g;
        let piece = h[r as usize][f as usize];
        h[r as usize][f as usize] = '.';
        if epf { h[r as usize][tf as usize] = '.'; }
        h[tr as usize][tf as usize] = match promo { Some(p) => if white { p.to_ascii_uppercase() } else { p }, None => piece };
        let mut safe = true;
        for kr in 0..8 { for kf in 0..8 { if h[kr][kf] == (if white { 'K' } else { 'k' }) { safe = !attacked(&h, kr as i32, kf as i32, !white); } } }
        if safe || !legal_only { out.push(format!("{}{}{}", sq_name(r, f), sq_name(tr, tf), promo.map(|p| p.to_string()).unwrap_or_default())); }
    }
    // castling: right present, king and rook at home, squares between empty, king's start, crossing and target squares not attacked
    let row = if white { 7 } else { 0 };
    let (kc, rc) = if white { ('K', 'R') } else { ('k', 'r') };
    if g[row][4] == kc {
        let r = row as i32;
        if rights.contains(if white { 'K' } else { 'k' }) && g[row][7] == rc && g[row][5] == '.' && g[row][6] == '.'
            && !attacked(&g, r, 4, !white) && !attacked(&g, r, 5, !white) && !attacked(&g, r, 6, !white) { out.push(format!("{}{}", sq_name(r, 4), sq_name(r, 6))); }
        if rights.contains(if white { 'Q' } else { 'q' }) && g[row][0] == rc && g[row][1] == '.' && g[row][2] == '.' && g[row][3] == '.'
            && !attacked(&g, r, 4, !white) && !attacked(&g, r, 3, !white) && !attacked(&g, r, 2, !white) { out.push(format!("{}{}", sq_name(r, 4), sq_name(r, 2))); }
    }
    out.sort();
    out
}

fn check_position(board: &mut Bitboard, bad: &mut u32) { check_position_as(board, None, bad) }

/// `given`: the FEN text the board was read from — the reference works from that text, not from what the board renders back
fn check_position_as(board: &mut Bitboard, given: Option<&str>, bad: &mut u32) {
    let fen = match given { Some(f) => f.to_string(), None => snap(board) };
    let expect = oracle_moves(&fen, true);
    let mut got: Vec<String> = board.generate_legal_moves().iter().map(|m| m.to_uci_string()).collect();
    got.sort();
    if got != expect {
        if *bad < 5 {
            let extra: Vec<&String> = got.iter().filter(|m| !expect.contains(m)).collect();
            let missing: Vec<&String> = expect.iter().filter(|m| !got.contains(m)).collect();
            println!("FAILING-INPUT: fen={:?} generate_legal_moves: moves returned that the rules do not allow {:?}, legal moves missing {:?}", fen, extra, missing);
        }
        *bad += 1;
    }
    // pseudo-legal generator: exactly the moves of the rules before the king-safety filter (castling as above), no duplicates
    let pexpect = oracle_moves(&fen, false);
    let mut pgot: Vec<String> = board.generate_pseudo_legal_moves().iter().map(|m| m.to_uci_string()).collect();
    pgot.sort();
    if pgot != pexpect {
        if *bad < 5 {
            let extra: Vec<&String> = pgot.iter().filter(|m| !pexpect.contains(m)).collect();
            let missing: Vec<&String> = pexpect.iter().filter(|m| !pgot.contains(m)).collect();
            println!("FAILING-INPUT: fen={:?} generate_pseudo_legal_moves: extra (or duplicated) {:?}, missing {:?}", fen, extra, missing);
        }
        *bad += 1;
    }
    // capture/promotion-only generator: exactly that subset
    let g = grid(&fen);
    let ep = fen.split(' ').nth(3).unwrap().to_string();
    let noisy = |m: &String| -> bool {
        let b = m.as_bytes();
        let (tf, tr) = ((b[2] - b'a') as usize, (b'8' - b[3]) as usize);
        let (ff, fr) = ((b[0] - b'a') as usize, (b'8' - b[1]) as usize);
        g[tr][tf] != '.' || m.len() == 5 || (g[fr][ff].to_ascii_lowercase() == 'p' && m[2..4] == ep)
    };
    let mut nexpect: Vec<String> = pexpect.iter().filter(|m| noisy(m)).cloned().collect();
    let mut ngot: Vec<String> = board.generate_pseudo_legal_non_quiescent_moves().iter().map(|m| m.to_uci_string()).collect();
    nexpect.sort();
    ngot.sort();
    if ngot != nexpect {
        if *bad < 5 { println!("FAILING-INPUT: fen={:?} generate_pseudo_legal_non_quiescent_moves returned {:?}, the capture/promotion subset is {:?}", fen, ngot, nexpect); }
        *bad += 1;
    }
}

#[test]
fn witness_c01_legal_moves_exact() {
    let mut bad = 0;
    for fen in TRICKY {
        let mut board = Bitboard::from_fen_string_unchecked(fen);
        check_position_as(&mut board, Some(fen), &mut bad);
    }
    for fen in ["r3k2r/8/8/8/8/8/8/R3K2R w KQkq - 0 1", "r3k2r/8/8/8/8/8/8/R3K2R b KQkq - 0 1", "r3k2r/8/8/8/8/8/8/R3K2R w Kq - 0 1",
                "r3k2r/p6p/8/8/8/8/P6P/RN2K1NR w KQkq - 0 1", "rn2k1nr/8/8/8/8/8/8/R3K2R b KQkq - 0 1", "r3k2r/8/8/4r3/8/8/8/R3K2R w KQkq - 0 1",
                "r3k2r/8/8/8/8/8/3p4/R3K2R w KQkq - 0 1", "4k3/P6P/8/8/8/8/p6p/4K3 w - - 0 1", "1n2k1n1/P6P/8/8/8/8/p6p/1N2K1N1 b - - 0 1"] {
        let mut board = Bitboard::from_fen_string_unchecked(fen);
        check_position_as(&mut board, Some(fen), &mut bad);
    }
    // castling with the ENEMY KING next to the king's path or landing square (kings never give check, but they do guard squares)
    for file in 1..7usize {
        for rank in [2usize, 3] {
            if rank == 2 && (3..=5).contains(&file) { continue; }      // next to the king on e1 / e8: not a legal position
            let mut row = String::new();
            if file > 0 { row.push_str(&file.to_string()); }
            row.push('k');
            if file < 7 { row.push_str(&(7 - file).to_string()); }
            let (r2, r3) = if rank == 2 { (row.clone(), "8".to_string()) } else { ("8".to_string(), row.clone()) };
            let white = format!("8/8/8/8/8/{}/{}/R3K2R w KQ - 0 1", r3, r2);
            let black = format!("r3k2r/{}/{}/8/8/8/8/8 b kq - 0 1", r2.replace('k', "K"), r3.replace('k', "K"));
            for fen in [white, black] {
                let mut board = Bitboard::from_fen_string_unchecked(&fen);
                check_position_as(&mut board, Some(&fen), &mut bad);
            }
        }
    }
    // deterministic pseudo-random games from the start position and two middlegames
    let mut x: u64 = 0x9E3779B97F4A7C15;
    for root in ["rnbqkbnr/pppppppp/8/8/8/8/PPPPPPPP/RNBQKBNR w KQkq - 0 1",
                 "r3k2r/p1ppqpb1/bn2pnp1/3PN3/1p2P3/2N2Q1p/PPPBBPPP/R3K2R w KQkq - 0 1",
                 "8/2p5/3p4/KP5r/1R3p1k/8/4P1P1/8 w - - 0 1"] {
        for _game in 0..20 {
            let mut board = Bitboard::from_fen_string_unchecked(root);
            for _ply in 0..60 {
                check_position(&mut board, &mut bad);
                let moves = board.generate_legal_moves();
                if moves.is_empty() { break; }
                x ^= x << 13; x ^= x >> 7; x ^= x << 17;
                board.make(moves[(x % moves.len() as u64) as usize]);
            }
        }
    }
    assert_eq!(bad, 0);
}

/// "the same holds for the pseudo-legal generator followed by the make/validity filter that the search and perft use": the perft
/// driver's node counts per root move equal the counts of a plain recursion over generate_legal_moves (itself compared with the
/// mailbox oracle above), to depth 3 — on the tricky positions (pins through an en-passant capture included) and perft roots
fn count_legal_lines(board: &mut Bitboard, depth: usize) -> u64 {
    if depth == 0 { return 1; }
    let mut n = 0;
    for mv in board.generate_legal_moves() {
        board.make(mv);
        n += count_legal_lines(board, depth - 1);
        board.unmake(mv);
    }
    n
}

#[test]
fn witness_c01_perft_driver_counts_legal_lines() {
    let mut bad = 0u32;
    let roots = ["8/2p5/3p4/KP5r/1R3p1k/8/4P1P1/8 w - - 0 1", "r3k2r/p1ppqpb1/bn2pnp1/3PN3/1p2P3/2N2Q1p/PPPBBPPP/R3K2R w KQkq - 0 1",
                 "8/8/8/8/k3p2R/8/3P4/4K3 w - - 0 1", "4k3/3p4/8/K3P2r/8/8/8/8 b - - 0 1", "8/8/8/8/R2p3k/8/4P3/4K3 w - - 0 1",
                 "rnbqkbnr/pppppppp/8/8/8/8/PPPPPPPP/RNBQKBNR w KQkq - 0 1", "r3k2r/Pppp1ppp/1b3nbN/nP6/BBP1P3/q4N2/Pp1P2PP/R2Q1RK1 w kq - 0 1"];
    for fen in TRICKY.iter().copied().chain(roots.iter().copied()) {
        for depth in 1..=3usize {
            let mut board = Bitboard::from_fen_string_unchecked(fen);
            let got = board.perft(depth);
            let mut expect: Vec<(String, u64)> = Vec::new();
            for mv in board.generate_legal_moves() {
                board.make(mv);
                expect.push((mv.to_uci_string(), count_legal_lines(&mut board, depth - 1)));
                board.unmake(mv);
            }
            let mut got: Vec<(String, u64)> = got.iter().map(|(m, n)| (m.to_uci_string(), *n)).collect();
            got.sort(); expect.sort();
            if got != expect {
                if bad < 4 {
                    let diff: Vec<_> = got.iter().filter(|g| !expect.contains(g)).collect();
                    println!("FAILING-INPUT: fen={:?} perft({}) counts {:?} where the legal-move recursion gives {:?}", fen, depth, diff, expect.iter().filter(|e| !got.contains(e)).collect::<Vec<_>>());
                }
                bad += 1;
            }
        }
    }
    assert_eq!(bad, 0);
}
