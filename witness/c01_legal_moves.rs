// witness probe for C01: generate_legal_moves returns exactly the pseudo-legal moves that do not leave the mover's king
// attacked, each once — against an independent mailbox reference, on positions chosen for the rare cases (en passant
// discoveries along rank and diagonal, pins, checks, castling) and along deterministic pseudo-random games.
use inkayaku_board::Bitboard;
use inkayaku_core::fen::Fen;

fn snap(b: &Bitboard) -> String { Fen::from(b).fen }

// ---- independent legality reference: play the pseudo-legal move with `make`, read the placement back through the
// FEN writer and test with a mailbox scan whether the mover's king is attacked (no engine attack code involved) ----
fn grid(fen: &str) -> [[char; 8]; 8] {
    let mut g = [['.'; 8]; 8];
    for (r, row) in fen.split(' ').next().unwrap().split('/').enumerate() {
        let mut f = 0usize;
        for ch in row.chars() {
            if let Some(d) = ch.to_digit(10) { f += d as usize; } else { g[r][f] = ch; f += 1; }
        }
    }
    g
}
fn attacked(g: &[[char; 8]; 8], r: i32, f: i32, by_white: bool) -> bool {
    let at = |rr: i32, ff: i32| -> Option<char> { if (0..8).contains(&rr) && (0..8).contains(&ff) { Some(g[rr as usize][ff as usize]) } else { None } };
    let mine = |c: char, k: char| -> bool { if by_white { c == k.to_ascii_uppercase() } else { c == k } };
    for (dr, df) in [(1, 2), (2, 1), (-1, 2), (-2, 1), (1, -2), (2, -1), (-1, -2), (-2, -1)] {
        if let Some(c) = at(r + dr, f + df) { if mine(c, 'n') { return true; } }
    }
    for dr in -1..=1 { for df in -1..=1 { if (dr, df) != (0, 0) { if let Some(c) = at(r + dr, f + df) { if mine(c, 'k') { return true; } } } } }
    // row index grows downwards (rank 8 is row 0): a white pawn attacks upwards, i.e. sits one row BELOW its target
    let pr = if by_white { r + 1 } else { r - 1 };
    for df in [-1, 1] { if let Some(c) = at(pr, f + df) { if mine(c, 'p') { return true; } } }
    for (dr, df, kinds) in [(1, 0, "rq"), (-1, 0, "rq"), (0, 1, "rq"), (0, -1, "rq"), (1, 1, "bq"), (1, -1, "bq"), (-1, 1, "bq"), (-1, -1, "bq")] {
        let (mut rr, mut ff) = (r + dr, f + df);
        while let Some(c) = at(rr, ff) {
            if c != '.' { if kinds.chars().any(|k| mine(c, k)) { return true; } break; }
            rr += dr; ff += df;
        }
    }
    false
}
fn king_attacked(fen: &str, white_king: bool) -> bool {
    let g = grid(fen);
    for r in 0..8 { for f in 0..8 { if g[r][f] == (if white_king { 'K' } else { 'k' }) { return attacked(&g, r as i32, f as i32, !white_king); } } }
    true
}

const TRICKY: [&str; 12] = [
    "8/8/8/KPp4r/8/8/8/4k3 w - c6 0 1",            // en passant removes both pawns from the king's rank
    "4K3/8/8/8/kpP4R/8/8/8 b - c3 0 1",
    "7b/8/8/3Pp3/8/8/8/K6k w - e6 0 1",            // the pawn captured en passant is the only blocker on a diagonal
    "k7/8/8/8/3pP3/8/8/4K2B b - e3 0 1",
    "7b/8/8/4pP2/8/8/8/K6k w - e6 0 1",
    "4k3/8/8/3Pp3/8/8/8/4K3 w - e6 0 1",           // legal en passant
    "4k3/8/8/8/7b/8/5B2/4K3 w - - 0 1",            // pinned bishop may move along the pin only
    "4k3/4r3/8/8/8/8/4N3/4K3 w - - 0 1",           // pinned knight
    "r3k2r/8/8/8/8/8/4q3/R3K2R w KQkq - 0 1",      // in check
    "r3k2r/8/8/8/8/5n2/8/R3K2R w KQkq - 0 1",      // knight check, castling rights present
    "r3k2r/8/8/8/8/8/6r1/R3K2R w KQkq - 0 1",      // g2 rook guards g1/f... : castling through attacked squares
    "4k3/8/8/8/1b6/8/3P4/4K3 w - - 0 1",           // pinned pawn: push illegal
];


fn check_position(board: &mut Bitboard, bad: &mut u32) {
    let fen = snap(board);
    let white = fen.split(' ').nth(1) == Some("w");
    let mut expect: Vec<String> = Vec::new();
    for mv in board.generate_pseudo_legal_moves() {
        board.make(mv);
        let legal = !king_attacked(&snap(board), white);
        board.unmake(mv);
        if legal { expect.push(mv.to_uci_string()); }
    }
    let mut got: Vec<String> = board.generate_legal_moves().iter().map(|m| m.to_uci_string()).collect();
    expect.sort();
    got.sort();
    if got != expect {
        if *bad < 5 {
            let extra: Vec<&String> = got.iter().filter(|m| !expect.contains(m)).collect();
            let missing: Vec<&String> = expect.iter().filter(|m| !got.contains(m)).collect();
            println!("FAILING-INPUT: fen={:?} generate_legal_moves: illegal moves returned {:?}, legal moves missing {:?}", fen, extra, missing);
        }
        *bad += 1;
    }
}

#[test]
fn witness_c01_legal_moves_exact() {
    let mut bad = 0;
    for fen in TRICKY {
        let mut board = Bitboard::from_fen_string_unchecked(fen);
        check_position(&mut board, &mut bad);
    }
    // deterministic pseudo-random games from the start position and two middlegames
    let mut x: u64 = 0x9E3779B97F4A7C15;
    for root in ["rnbqkbnr/pppppppp/8/8/8/8/PPPPPPPP/RNBQKBNR w KQkq - 0 1",
                 "r3k2r/p1ppqpb1/bn2pnp1/3PN3/1p2P3/2N2Q1p/PPPBBPPP/R3K2R w KQkq - 0 1",
                 "8/2p5/3p4/KP5r/1R3p1k/8/4P1P1/8 w - - 0 1"] {
        for _game in 0..20 {
            let mut board = Bitboard::from_fen_string_unchecked(root);
            for _ply in 0..60 {
                check_position(&mut board, &mut bad);
                let moves = board.generate_legal_moves();
                if moves.is_empty() { break; }
                x ^= x << 13; x ^= x >> 7; x ^= x << 17;
                board.make(moves[(x % moves.len() as u64) as usize]);
            }
        }
    }
    assert_eq!(bad, 0);
}
