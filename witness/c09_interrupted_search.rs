// witness probe for C09 (public API, in-process engine): after an interrupted search, `go depth 1` without a new
// position command must answer with a move that is legal in the position the engine was given.
use std::sync::Arc;
use std::sync::mpsc::channel;
use std::time::Duration;

use inkayaku_board::Bitboard;
use inkayaku_core::fen::Fen;
use inkayaku_engine_core::Engine;
use inkayaku_uci::{Go, UciCommand, UciEngine, UciMove, UciTxCommand};
use inkayaku_uci::command::CommandUciTx;

fn bestmove(rx: &std::sync::mpsc::Receiver<UciTxCommand>) -> Option<String> {
    loop {
        match rx.recv_timeout(Duration::from_secs(120)) {
            Ok(UciTxCommand::BestMove { best_move, .. }) => return best_move.map(|m| m.to_string()),
            Ok(_) => {}
            Err(_) => panic!("no bestmove within 120 s"),
        }
    }
}

fn run_movetime(fen: &str, movetime_ms: u64) -> Result<(), String> {
    let (tx, rx) = channel();
    let mut engine = Engine::new(Arc::new(CommandUciTx::new(tx)), false);
    engine.accept(UciCommand::UciNewGame);
    let parsed: Fen = fen.parse().unwrap();
    engine.accept(UciCommand::PositionFrom { fen: parsed, moves: vec![] });
    engine.accept(UciCommand::Go { go: Go { move_time: Some(Duration::from_millis(movetime_ms)), ..Go::default() } });
    let _ = bestmove(&rx);
    engine.accept(UciCommand::Go { go: Go { depth: Some(1), ..Go::default() } });
    let answer = bestmove(&rx);
    let mut board = Bitboard::from_fen_string_unchecked(fen);
    let legal: Vec<String> = board.generate_legal_moves().iter().map(|m| m.to_uci_string()).collect();
    match answer {
        Some(mv) if legal.contains(&mv) => Ok(()),
        other => Err(format!("fen={:?} go movetime {} (expires mid-iteration), go depth 1 -> bestmove {:?} which is not legal there", fen, movetime_ms, other)),
    }
}

fn run(fen: &str, interrupt_ms: u64) -> Result<(), String> { run_moves(fen, &[], interrupt_ms) }

/// the position is given as FEN + move list (the usual GUI form); the legality reference replays the list
fn run_moves(fen: &str, moves: &[&str], interrupt_ms: u64) -> Result<(), String> {
    let (tx, rx) = channel();
    let mut engine = Engine::new(Arc::new(CommandUciTx::new(tx)), false);
    engine.accept(UciCommand::UciNewGame);
    let parsed: Fen = fen.parse().unwrap();
    engine.accept(UciCommand::PositionFrom { fen: parsed, moves: moves.iter().map(|m| m.parse::<UciMove>().unwrap()).collect() });
    engine.accept(UciCommand::Go { go: Go { infinite: true, ..Go::default() } });
    std::thread::sleep(Duration::from_millis(interrupt_ms));
    engine.accept(UciCommand::Stop);
    let _ = bestmove(&rx);
    engine.accept(UciCommand::Go { go: Go { depth: Some(1), ..Go::default() } });
    let answer = bestmove(&rx);
    let mut board = Bitboard::from_fen_string_unchecked(fen);
    for m in moves { board.make_uci(m).unwrap(); }
    let legal: Vec<String> = board.generate_legal_moves().iter().map(|m| m.to_uci_string()).collect();
    match answer {
        Some(mv) if legal.contains(&mv) => Ok(()),
        other => Err(format!("fen={:?} moves={:?} go infinite, stop after {} ms, go depth 1 -> bestmove {:?} which is not legal there", fen, moves, interrupt_ms, other)),
    }
}

#[test]
fn witness_c09_stop_then_go() {
    let mut bad = 0;
    for (fen, ms) in [
        ("rnbqkbnr/pppppppp/8/8/8/8/PPPPPPPP/RNBQKBNR w KQkq - 0 1", 2500u64),
        ("r3k2r/pppq1ppp/2n2n2/3pp3/3PP3/2N2N2/PPPQ1PPP/R3K2R w KQkq - 0 10", 3500),
        ("rnbqkbnr/pppppppp/8/8/8/8/PPPPPPPP/RNBQKBNR w KQkq - 0 1", 6000),
    ] {
        if let Err(e) = run(fen, ms) {
            println!("FAILING-INPUT: {}", e);
            bad += 1;
        }
    }
    // position given with a move list: black to move after 1.e4; a longer opening line
    for (fen, moves, ms) in [
        ("rnbqkbnr/pppppppp/8/8/8/8/PPPPPPPP/RNBQKBNR w KQkq - 0 1", &["e2e4"][..], 1500u64),
        ("rnbqkbnr/pppppppp/8/8/8/8/PPPPPPPP/RNBQKBNR w KQkq - 0 1", &["d2d4", "g8f6", "c2c4", "e7e6", "b1c3"][..], 1500),
        ("r3k2r/pppq1ppp/2n2n2/3pp3/3PP3/2N2N2/PPPQ1PPP/R3K2R w KQkq - 0 10", &["e1c1"][..], 1500),
    ] {
        if let Err(e) = run_moves(fen, moves, ms) {
            println!("FAILING-INPUT: {}", e);
            bad += 1;
        }
    }
    for (fen, ms) in [
        ("r3k2r/pppq1ppp/2n2n2/3pp3/3PP3/2N2N2/PPPQ1PPP/R3K2R w KQkq - 0 10", 700u64),
        ("r3k2r/pppq1ppp/2n2n2/3pp3/3PP3/2N2N2/PPPQ1PPP/R3K2R w KQkq - 0 10", 1600),
        ("r1bq1rk1/pp2bppp/2n1pn2/2pp4/3P1B2/2PBPN2/PP1N1PPP/R2QK2R w KQ - 0 8", 1100),
        ("r1bq1rk1/pp2bppp/2n1pn2/2pp4/3P1B2/2PBPN2/PP1N1PPP/R2QK2R w KQ - 0 8", 2300),
    ] {
        if let Err(e) = run_movetime(fen, ms) {
            println!("FAILING-INPUT: {}", e);
            bad += 1;
        }
    }
    assert_eq!(bad, 0, "{} interrupted searches left the engine's position altered", bad);
}

/// "An interrupted search still answers with exactly one bestmove taken from the last completed iteration": the search is
/// deterministic, so the bestmove of an interrupted `go infinite` whose closing info reports depth d must be the bestmove a
/// fresh engine gives for `go depth d` in the same position.  Positions in which the side to move stands worse (a partial
/// iteration's placeholder value 0 would look attractive) and better.
fn interrupted_then_fresh(fen: &str, interrupt_ms: u64) -> Result<(), String> {
    let (tx, rx) = channel();
    let mut engine = Engine::new(Arc::new(CommandUciTx::new(tx)), false);
    engine.accept(UciCommand::UciNewGame);
    engine.accept(UciCommand::PositionFrom { fen: fen.parse().unwrap(), moves: vec![] });
    engine.accept(UciCommand::Go { go: Go { infinite: true, ..Go::default() } });
    std::thread::sleep(Duration::from_millis(interrupt_ms));
    engine.accept(UciCommand::Stop);
    let mut last_depth = None;
    let mut answers = Vec::new();
    loop {
        match rx.recv_timeout(Duration::from_millis(if answers.is_empty() { 120_000 } else { 300 })) {
            Ok(UciTxCommand::Info { info }) => { if let Some(d) = info.depth { last_depth = Some(d); } }
            Ok(UciTxCommand::BestMove { best_move, .. }) => answers.push(best_move.map(|m| m.to_string())),
            Ok(_) => {}
            Err(_) => break,
        }
    }
    if answers.len() != 1 { return Err(format!("fen={:?}: an interrupted search answered with {} bestmove lines", fen, answers.len())); }
    let d = match last_depth { Some(d) if d >= 1 => d, _ => return Ok(()) };   // interrupted before any iteration completed
    let (tx2, rx2) = channel();
    let mut fresh = Engine::new(Arc::new(CommandUciTx::new(tx2)), false);
    fresh.accept(UciCommand::UciNewGame);
    fresh.accept(UciCommand::PositionFrom { fen: fen.parse().unwrap(), moves: vec![] });
    fresh.accept(UciCommand::Go { go: Go { depth: Some(d as u64), ..Go::default() } });
    let expect = bestmove(&rx2);
    if answers[0] != expect {
        return Err(format!("fen={:?} go infinite, stop after {} ms: closing info reports depth {}, bestmove {:?}; a fresh engine's go depth {} answers {:?}", fen, interrupt_ms, d, answers[0], d, expect));
    }
    Ok(())
}

#[test]
fn witness_c09_bestmove_from_last_completed_iteration() {
    let mut bad = 0;
    for (fen, ms) in [
        ("rnb1kbnr/pppp1ppp/8/4p3/4P3/8/PPPP1PPP/RNBQKBNR b KQkq - 0 2", 700u64),     // black a queen down
        ("rnb1kbnr/pppp1ppp/8/4p3/4P3/8/PPPP1PPP/RNBQKBNR b KQkq - 0 2", 1300),
        ("rnb1kbnr/pppp1ppp/8/4p3/4P3/8/PPPP1PPP/RNBQKBNR b KQkq - 0 2", 2100),
        ("rnb1kbnr/pppp1ppp/8/4p3/4P3/8/PPPP1PPP/RNBQKBNR b KQkq - 0 2", 3300),
        ("r1b1kbnr/pppp1ppp/2n5/4p3/4P3/5N2/PPPP1PPP/RNBQKB1R w KQkq - 0 3", 1500),   // white a queen up
        ("r3k2r/ppp2ppp/2n2n2/3pp3/3PP3/2N2N2/PPPQ1PPP/R3K2R b KQkq - 0 10", 1900),   // black a queen down, castling around
    ] {
        if let Err(e) = interrupted_then_fresh(fen, ms) {
            println!("FAILING-INPUT: {}", e);
            bad += 1;
        }
    }
    assert_eq!(bad, 0);
}
