// witness probe for C11 (integration test of engine_core, public API only): colour symmetry of fixed-depth search scores
// for positions that carry game history.  A position P given as `position fen F moves M` and its mirror flip(P)
// (ranks reversed, colours of pieces / side to move / rights swapped, every history move mirrored) must get the same
// score from the mover's point of view at depth 1..3 — in particular when the line reaches a third occurrence and is
// valued as a draw by repetition (draw score and contempt offset are relative to the root mover, not to White).
use std::str::FromStr;
use std::sync::mpsc::channel;
use std::sync::Arc;

use inkayaku_core::fen::Fen;
use inkayaku_engine_core::Engine;
use inkayaku_uci::command::CommandUciTx;
use inkayaku_uci::{Go, Score, UciCommand, UciEngine, UciMove, UciTxCommand};

fn flip_move(mv: &str) -> String {
    mv.chars().map(|c| if c.is_ascii_digit() { char::from(b'9' - (c as u8 - b'0')) } else { c }).collect()
}

fn swap_case(s: &str) -> String {
    s.chars().map(|c| if c.is_ascii_uppercase() { c.to_ascii_lowercase() } else { c.to_ascii_uppercase() }).collect()
}

fn flip_fen(fen: &str) -> String {
    let f: Vec<&str> = fen.split(' ').collect();
    let placement = f[0].split('/').rev().map(swap_case).collect::<Vec<_>>().join("/");
    let turn = if f[1] == "w" { "b" } else { "w" };
    let rights = if f[2] == "-" { "-".to_string() } else {
        let s = swap_case(f[2]);
        // canonical order KQkq
        "KQkq".chars().filter(|c| s.contains(*c)).collect()
    };
    let ep = if f[3] == "-" { "-".to_string() } else { flip_move(f[3]) };
    format!("{} {} {} {} {} {}", placement, turn, rights, ep, f[4], f[5])
}

fn score_of(fen: &str, moves: &[String], depth: u64, search_moves: &[String]) -> Score {
    let (tx, rx) = channel();
    let mut engine = Engine::new(Arc::new(CommandUciTx::new(tx)), false);
    engine.accept(UciCommand::UciNewGame);
    engine.accept(UciCommand::PositionFrom { fen: Fen::from_str(fen).unwrap(), moves: moves.iter().map(|s| UciMove::parse(s).unwrap()).collect() });
    engine.accept(UciCommand::Go { go: Go { depth: Some(depth), search_moves: search_moves.iter().map(|s| UciMove::parse(s).unwrap()).collect(), ..Go::default() } });
    let mut last = None;
    while let Ok(c) = rx.recv() {
        match c {
            UciTxCommand::Info { info } => { if info.score.is_some() { last = info.score; } }
            UciTxCommand::BestMove { .. } => break,
            _ => {}
        }
    }
    engine.accept(UciCommand::Quit);
    last.expect("no score")
}

#[test]
fn witness_c11_flip_with_history() {
    // (fen, history, the move that repeats the position a third time)
    let cases: Vec<(&str, Vec<&str>, &str)> = vec![
        // black to move at the root repeats
        ("4k3/8/8/8/8/8/8/R3K3 w - - 0 1", vec!["a1a2", "e8e7", "a2a1", "e7e8", "a1a2", "e8e7", "a2a1"], "e7e8"),
        // white to move at the root repeats
        ("4k3/8/8/8/8/8/3Q4/4K3 b - - 3 30", vec!["e8e7", "e1e2", "e7e8", "e2e1", "e8e7", "e1e2", "e7e8"], "e2e1"),
        // one reversible ply in front: the repeating side is black again, material the other way round
        ("4k3/3q4/8/8/8/8/8/4K3 b - - 0 12", vec!["e8e7", "e1e2", "e7e8", "e2e1", "e8e7", "e1e2", "e7e8"], "e2e1"),
        // repetition two plies below the root (depth >= 3 reaches it inside the line)
        ("6k1/8/8/8/8/8/5PPP/R5K1 w - - 0 20", vec!["a1a2", "g8h8", "a2a1", "h8g8", "a1a2", "g8h8"], "a2a1"),
    ];
    let mut bad = 0;
    for (fen, hist, rep) in &cases {
        let ffen = flip_fen(fen);
        let moves: Vec<String> = hist.iter().map(|s| (*s).to_string()).collect();
        let fmoves: Vec<String> = hist.iter().map(|s| flip_move(s)).collect();
        for depth in 1..=3u64 {
            for restricted in [true, false] {
                let (sm, fsm) = if restricted { (vec![(*rep).to_string()], vec![flip_move(rep)]) } else { (vec![], vec![]) };
                let a = score_of(fen, &moves, depth, &sm);
                let b = score_of(&ffen, &fmoves, depth, &fsm);
                if a != b {
                    if bad < 6 {
                        println!("FAILING-INPUT: position fen {:?} moves {:?} go depth {} searchmoves {:?} scores {:?}; the colour-flipped game (fen {:?}) scores {:?}", fen, hist, depth, sm, a, ffen, b);
                    }
                    bad += 1;
                }
            }
        }
    }
    assert_eq!(bad, 0);
}
