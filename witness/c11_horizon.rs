// witness probe for C11/C05 inside the search (integration test of engine_core, public API): mate and stalemate AT THE SEARCH
// HORIZON are scored as mate and as a draw even when the side without legal moves still has pseudo-legal captures or
// promotions (moves that do not answer the check / that leave the king attacked), for both colours.
use std::str::FromStr;
use std::sync::mpsc::channel;
use std::sync::Arc;

use inkayaku_core::fen::Fen;
use inkayaku_engine_core::Engine;
use inkayaku_uci::command::CommandUciTx;
use inkayaku_uci::{Go, Score, UciCommand, UciEngine, UciMove, UciTxCommand};

fn score(fen: &str, depth: u64, only: Option<&str>) -> Score {
    let (tx, rx) = channel();
    let mut engine = Engine::new(Arc::new(CommandUciTx::new(tx)), false);
    engine.accept(UciCommand::UciNewGame);
    engine.accept(UciCommand::PositionFrom { fen: Fen::from_str(fen).unwrap(), moves: vec![] });
    engine.accept(UciCommand::Go { go: Go { depth: Some(depth), search_moves: only.map(|m| vec![UciMove::parse(m).unwrap()]).unwrap_or_default(), ..Go::default() } });
    let mut last = None;
    while let Ok(c) = rx.recv() {
        match c {
            UciTxCommand::Info { info } => { if info.score.is_some() { last = info.score; } }
            UciTxCommand::BestMove { .. } => break,
            _ => {}
        }
    }
    engine.accept(UciCommand::Quit);
    last.expect("no score")
}

#[test]
fn witness_c11_horizon_terminal_positions() {
    let mut bad = 0;
    // (position, depth, only this root move, expected) — the mated/stalemated side keeps a pseudo-legal capture (axb4 / bxa5 ...)
    for (fen, depth, only, expect_mate, expect_draw) in [
        ("6k1/5ppp/8/p7/1P6/8/1B4Q1/6K1 w - - 0 1", 1u64, Some("g2g7"), Some(1), false),
        ("6k1/1b4q1/8/1p6/P7/8/5PPP/6K1 b - - 0 1", 1, Some("g7g2"), Some(1), false),
        ("6k1/5ppp/8/p7/1P6/8/1B4Q1/6K1 w - - 0 37", 1, Some("g2g7"), Some(1), false),
        // stalemate at the horizon: after Kb6 the black king has no move, black has no other piece; a capture-less case is the control
        ("k7/P7/2K5/8/8/8/8/8 w - - 0 1", 1, Some("c6b6"), None, true),
        ("8/8/8/8/8/2k5/p7/K7 b - - 0 1", 1, Some("c3b3"), None, true),
    ] {
        let s = score(fen, depth, only);
        let ok = match (&s, expect_mate, expect_draw) {
            (Score::Mate { mate_in }, Some(k), _) => *mate_in == k,
            (Score::Centipawn { score }, None, true) => score.abs() <= 100,
            _ => false,
        };
        if !ok {
            println!("FAILING-INPUT: fen={:?} go depth {} searchmoves {:?}: scored {:?}, expected {}", fen, depth, only, s, if let Some(k) = expect_mate { format!("mate {}", k) } else { "a draw".to_string() });
            bad += 1;
        }
    }
    assert_eq!(bad, 0);
}

/// the same terminal positions reached BELOW the horizon (depth 2 and 3: the node without legal moves is an interior node of
/// search_negamax, valued by the block behind its move loop), and a quiet middle-game control: a node WITH legal moves must not
/// be valued as a terminal one
#[test]
fn witness_c11_horizon_interior_terminal_positions() {
    let mut bad = 0;
    for (fen, only, expect_mate, expect_draw) in [
        ("6k1/5ppp/8/p7/1P6/8/1B4Q1/6K1 w - - 0 1", Some("g2g7"), Some(1), false),
        ("6k1/1b4q1/8/1p6/P7/8/5PPP/6K1 b - - 0 1", Some("g7g2"), Some(1), false),
        ("7k/8/5K2/8/8/8/8/6Q1 w - - 0 1", Some("g1g7"), Some(1), false),
        ("6q1/8/8/8/8/5k2/8/7K b - - 0 1", Some("g8g2"), Some(1), false),
        ("k7/P7/2K5/8/8/8/8/8 w - - 0 1", Some("c6b6"), None, true),
        ("8/8/8/8/8/2k5/p7/K7 b - - 0 1", Some("c3b3"), None, true),
        ("7k/8/5QK1/8/8/8/8/8 w - - 0 1", Some("f6f7"), None, true),
    ] {
        for depth in [2u64, 3] {
            let s = score(fen, depth, only);
            let ok = match (&s, expect_mate, expect_draw) {
                (Score::Mate { mate_in }, Some(k), _) => *mate_in == k,
                (Score::Centipawn { score }, None, true) => score.abs() <= 100,
                _ => false,
            };
            if !ok {
                println!("FAILING-INPUT: fen={:?} go depth {} searchmoves {:?}: scored {:?}, expected {}", fen, depth, only, s, if let Some(k) = expect_mate { format!("mate {}", k) } else { "a draw".to_string() });
                bad += 1;
            }
        }
    }
    // control: nobody is mated or stalemated anywhere near; a search that values nodes with legal moves as terminal reports a mate or 0
    for fen in ["r1bqkbnr/pppp1ppp/2n5/4p3/4P3/5N2/PPPP1PPP/RNBQKB1R w KQkq - 2 3", "r1bqkbnr/pppp1ppp/2n5/4p3/4P3/5N2/PPPP1PPP/RNBQKB1R b KQkq - 2 3"] {
        for depth in [2u64, 3] {
            let s = score(fen, depth, None);
            if !matches!(s, Score::Centipawn { score } if score.abs() < 400) {
                println!("FAILING-INPUT: fen={:?} go depth {}: scored {:?} in a quiet, level opening position", fen, depth, s);
                bad += 1;
            }
        }
    }
    assert_eq!(bad, 0);
}
