// witness probe for C11 (appended to engine_core/src/engine/heuristic/simple.rs): the static evaluation of a position
// and of its colour-flipped twin (mirrored vertically, colours / side to move / rights swapped) are negatives of each other.
#[cfg(test)]
mod verif_witness_c11 {
    use inkayaku_board::Bitboard;
    use crate::engine::heuristic::Heuristic;
    use crate::engine::heuristic::simple::SimpleHeuristic;

    fn flip_fen(fen: &str) -> String {
        let parts: Vec<&str> = fen.split(' ').collect();
        let swap = |c: char| if c.is_ascii_uppercase() { c.to_ascii_lowercase() } else if c.is_ascii_lowercase() { c.to_ascii_uppercase() } else { c };
        let placement: Vec<String> = parts[0].split('/').rev().map(|r| r.chars().map(swap).collect()).collect();
        let side = if parts[1] == "w" { "b" } else { "w" };
        let mut rights: Vec<char> = parts[2].chars().map(swap).collect();
        rights.sort_by_key(|c| match c { 'K' => 0, 'Q' => 1, 'k' => 2, 'q' => 3, _ => 4 });
        let ep = if parts[3] == "-" { "-".to_string() } else { let b = parts[3].as_bytes(); format!("{}{}", b[0] as char, (b'9' - b[1] + b'0') as char) };
        format!("{} {} {} {} {} {}", placement.join("/"), side, rights.into_iter().collect::<String>(), ep, parts[4], parts[5])
    }

    #[test]
    fn verif_witness_c11_flip() {
        let h = SimpleHeuristic {};
        let mut bad = 0;
        for fen in [
            "rnbqkbnr/pppppppp/8/8/8/8/PPPPPPPP/RNBQKBNR w KQkq - 0 1",
            "rn2k2r/ppp2ppp/8/3pPP2/3P1q2/P1KB4/P1P4P/3R2N1 b kq - 0 14",
            "2bq1b2/7k/8/8/8/5N2/8/3Q2K1 w - - 0 30", "r1bq1rk1/ppppbppp/8/8/8/5N2/PPPPPPPP/R2QK2R w KQ - 0 12",
            "6k1/5ppp/8/8/8/8/5PPP/Q5K1 w - - 0 40", "4k3/8/8/3nn3/8/8/3Q4/4K3 b - - 3 50", "r3k2r/pb3p2/5npp/n2p4/1p1PPB2/6P1/P2N1PBP/R3K2R w KQkq - 0 10",
            "8/2k5/3b4/8/8/2B1N3/5K2/3Q4 w - - 0 1", "3q4/5k2/2b1n3/8/8/3B4/2K5/8 b - - 0 1",
        ] {
            let twin = flip_fen(fen);
            let a = h.evaluate_ongoing(&Bitboard::from_fen_string_unchecked(fen), 0);
            let b = h.evaluate_ongoing(&Bitboard::from_fen_string_unchecked(&twin), 0);
            if a != -b {
                if bad < 3 { println!("FAILING-INPUT: fen={:?} evaluates to {} but its colour-flipped twin {:?} evaluates to {}", fen, a, twin, b); }
                bad += 1;
            }
        }
        assert_eq!(bad, 0, "{} positions whose evaluation is not negated by the colour flip", bad);
    }

    /// mate distances: the side to move mating in k moves is `mate k`, being mated in k moves is `mate -k`, for either
    /// colour and whatever the move number — values built from the rules of the score (mate = 2^24 minus the full-move
    /// number of the mated position, seen from the mover), not from the code under test
    #[test]
    fn verif_witness_c11_mate_distance() {
        use inkayaku_uci::Score;
        let h = SimpleHeuristic {};
        let mut bad = 0;
        // the relations the mate scores rest on, on whatever values the code returns
        let (win, loss, draw, fmax) = (h.win_score() as i64, h.loss_score() as i64, h.draw_score() as i64, SimpleHeuristic::MAX_FULL_MOVES as i64);
        if !(loss == -win && win > 0 && draw.abs() < win / 4 && fmax > 0 && win / 2 > 2 * fmax && win < (1i64 << 30)) {
            println!("FAILING-INPUT: score constants win={} loss={} draw={} MAX_FULL_MOVES={}: a mate score cannot be told from a material value or from the opposite mate", win, loss, draw, fmax);
            bad += 1;
        }
        for white_to_move in [true, false] {
            for f0 in [1i32, 37, 500] {
                let fen = format!("4k3/8/8/8/8/8/8/4K2R {} - - 0 {}", if white_to_move { "w" } else { "b" }, f0);
                let board = Bitboard::from_fen_string_unchecked(&fen);
                for k in 1i32..=5 {
                    // the mover mates in k: the mated position has the opponent to move; its full-move number
                    let mated_full_when_mover_mates = if white_to_move { f0 + k - 1 } else { f0 + k };
                    let v_mating = h.win_score() - mated_full_when_mover_mates;            // mover's point of view: positive
                    // the mover is mated in k: the mated position has the mover to move again, k full moves later
                    let v_mated = -(h.win_score() - (f0 + k));
                    for (v, expect) in [(v_mating, k), (v_mated, -k)] {
                        match h.score_from_value(v, &board) {
                            Score::Mate { mate_in } if mate_in == expect => {}
                            other => {
                                if bad < 5 { println!("FAILING-INPUT: fen={:?} value {} (mate {} for the side to move) is reported as {:?}", fen, v, expect, other); }
                                bad += 1;
                            }
                        }
                    }
                }
            }
        }
        assert_eq!(bad, 0);
    }


    /// the same along deterministic pseudo-random games (every piece kind on many squares, both game stages, en passant and
    /// castling rights around): value(P) == -value(flip(P))
    #[test]
    fn verif_witness_c11_flip_along_games() {
        use inkayaku_core::fen::Fen;
        let h = SimpleHeuristic {};
        let mut bad = 0;
        let mut x: u64 = 0x9E3779B97F4A7C15;
        for root in ["rnbqkbnr/pppppppp/8/8/8/8/PPPPPPPP/RNBQKBNR w KQkq - 0 1",
                     "r3k2r/p1ppqpb1/bn2pnp1/3PN3/1p2P3/2N2Q1p/PPPBBPPP/R3K2R w KQkq - 0 1",
                     "4k3/1q4b1/8/8/3N4/8/1B4Q1/4K3 b - - 0 30", "8/2p5/3p4/KP5r/1R3p1k/8/4P1P1/8 w - - 0 1"] {
            for _game in 0..15 {
                let mut board = Bitboard::from_fen_string_unchecked(root);
                for _ply in 0..70 {
                    let fen = Fen::from(&board).fen;
                    let twin = flip_fen(&fen);
                    let a = h.evaluate_ongoing(&board, 0);
                    let b = h.evaluate_ongoing(&Bitboard::from_fen_string_unchecked(&twin), 0);
                    if a != -b {
                        if bad < 3 { println!("FAILING-INPUT: fen={:?} evaluates to {} but its colour-flipped twin {:?} evaluates to {}", fen, a, twin, b); }
                        bad += 1;
                    }
                    let moves = board.generate_legal_moves();
                    if moves.is_empty() { break; }
                    x ^= x << 13; x ^= x >> 7; x ^= x << 17;
                    board.make(moves[(x % moves.len() as u64) as usize]);
                }
            }
        }
        assert_eq!(bad, 0);
    }
}
