// witness probe for unit move_order (appended to engine_core/src/engine/move_order.rs): ordering the generated moves of a
// position is a PERMUTATION of the buffer — in particular when the PV / table / killer move handed in is the "same" move
// (same squares, pieces, flags) stored on another line, i.e. with other undo data (previous half-move clock, previous e.p.
// square).  The moves that come out must be, bit for bit, the moves that went in.
#[cfg(test)]
mod verif_witness_move_order {
    use inkayaku_board::{Bitboard, Move};

    use crate::engine::move_order::{MoveOrder, MvvLvaMoveOrder};

    fn sorted_bits(moves: &[Move]) -> Vec<u64> {
        let mut v: Vec<u64> = moves.iter().map(|m| m.bits).collect();
        v.sort_unstable();
        v
    }

    #[test]
    fn verif_witness_move_order_is_a_permutation() {
        let mut bad = 0;
        // the same placement reached with different clocks / e.p. squares: the look-alike moves come from the second FEN
        for (fen, other) in [
            ("8/8/4k3/8/3P4/8/3QK3/8 b - - 0 81", "8/8/4k3/8/3P4/8/3QK3/8 b - - 99 81"),
            ("r3k2r/pppq1ppp/2npbn2/2b1p3/2B1P3/2NPBN2/PPPQ1PPP/R3K2R w KQkq - 4 8", "r3k2r/pppq1ppp/2npbn2/2b1p3/2B1P3/2NPBN2/PPPQ1PPP/R3K2R w KQkq - 37 60"),
            ("rnbqkbnr/ppp1p1pp/8/3pPp2/8/8/PPPP1PPP/RNBQKBNR w KQkq f6 0 3", "rnbqkbnr/ppp1p1pp/8/3pPp2/8/8/PPPP1PPP/RNBQKBNR w KQkq - 5 9"),
            ("8/5k2/8/8/8/8/R7/4K3 w - - 130 90", "8/5k2/8/8/8/8/R7/4K3 w - - 3 90"),
        ] {
            let here = Bitboard::from_fen_string_unchecked(fen).generate_pseudo_legal_moves();
            let elsewhere = Bitboard::from_fen_string_unchecked(other).generate_pseudo_legal_moves();
            let before = sorted_bits(&here);
            let order = MvvLvaMoveOrder {};
            for (i, look_alike) in elsewhere.iter().enumerate() {
                for role in 0..3 {
                    let mut buffer = here.clone();
                    let hint = Some(*look_alike);
                    match role {
                        0 => order.sort(&mut buffer, hint, None, None),
                        1 => order.sort(&mut buffer, None, hint, None),
                        _ => order.sort(&mut buffer, None, elsewhere.get(i + 1).copied(), hint),
                    }
                    if sorted_bits(&buffer) != before {
                        if bad < 4 {
                            println!("FAILING-INPUT: fen={:?}: ordering the generated moves with the {} move {} as stored at {:?} changes the moves in the buffer (not a permutation)", fen, ["PV", "table", "killer"][role], look_alike.to_uci_string(), other);
                        }
                        bad += 1;
                    }
                }
            }
            // and with hints that are moves of this very position
            for m in here.iter() {
                let mut buffer = here.clone();
                order.sort(&mut buffer, Some(*m), Some(*m), Some(*m));
                if sorted_bits(&buffer) != before { bad += 1; println!("FAILING-INPUT: fen={:?}: ordering with hint {} is not a permutation", fen, m.to_uci_string()); }
            }
        }
        assert_eq!(bad, 0);
    }
}
