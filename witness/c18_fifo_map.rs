// witness probe for C18 (appended to engine_core/src/engine/table.rs): HashTable against a reference FIFO bounded map,
// over deterministic pseudo-random put/clear/get sequences for small capacities and a small key universe.
#[cfg(test)]
mod verif_witness_c18 {
    use super::HashTable;

    struct Reference { cap: usize, order: Vec<u64>, vals: Vec<(u64, u32)> }
    impl Reference {
        fn get(&self, k: u64) -> Option<u32> { self.vals.iter().find(|e| e.0 == k).map(|e| e.1) }
        fn put(&mut self, k: u64, v: u32) {
            if let Some(e) = self.vals.iter_mut().find(|e| e.0 == k) { e.1 = v; } else { self.vals.push((k, v)); self.order.push(k); }
            if self.vals.len() > self.cap { let old = self.order.remove(0); self.vals.retain(|e| e.0 != old); }
        }
        fn clear(&mut self) { self.order.clear(); self.vals.clear(); }
    }

    #[test]
    fn verif_witness_c18_model() {
        let mut bad = 0;
        for cap in 1usize..=5 {
            for seed in 0u64..40 {
                let mut table: HashTable<u64, u32> = HashTable::new(cap);
                let mut model = Reference { cap, order: vec![], vals: vec![] };
                let mut x = seed.wrapping_mul(0x9E37_79B9_7F4A_7C15).wrapping_add(cap as u64);
                let mut trace = Vec::new();
                for step in 0..60u32 {
                    x ^= x << 13; x ^= x >> 7; x ^= x << 17;
                    let key = (x >> 8) % 7;
                    if x % 23 == 0 { table.clear(); model.clear(); trace.push("clear".to_string()); }
                    else { table.put(key, step); model.put(key, step); trace.push(format!("put({},{})", key, step)); }
                    let mut ok = table.len() == model.vals.len() && table.len() <= cap;
                    for k in 0..7u64 { ok = ok && table.get(k).copied() == model.get(k); }
                    if !ok {
                        if bad < 3 { println!("FAILING-INPUT: capacity={} operations={:?}: table (len {}) disagrees with the FIFO map model (len {})", cap, trace, table.len(), model.vals.len()); }
                        bad += 1;
                        break;
                    }
                }
            }
        }
        assert_eq!(bad, 0, "{} operation sequences disagree with the reference FIFO bounded map", bad);
    }

    /// the table the search actually holds: HashMapTranspositionTable through the TranspositionTable trait, same model
    #[test]
    fn verif_witness_c18_wrapper() {
        use super::transposition::{HashMapTranspositionTable, NodeType, TranspositionTable, TtEntry};
        use crate::engine::search::ValuedMove;
        let mut bad = 0;
        for cap in 1usize..=4 {
            for seed in 0u64..25 {
                let mut table = HashMapTranspositionTable::new(cap);
                let mut model = Reference { cap, order: vec![], vals: vec![] };
                let mut x = seed.wrapping_mul(0xD1B5_4A32_D192_ED03).wrapping_add(cap as u64);
                let mut trace = Vec::new();
                for step in 0..50u32 {
                    x ^= x << 13; x ^= x >> 7; x ^= x << 17;
                    let key = (x >> 8) % 6;
                    if x % 19 == 0 { table.clear(); model.clear(); trace.push("clear".to_string()); }
                    else {
                        table.put(key, TtEntry::new(ValuedMove::leaf(step as i32), key, step as usize, step as i32, NodeType::Exact));
                        model.put(key, step);
                        trace.push(format!("put({},{})", key, step));
                    }
                    let mut ok = table.len() == model.vals.len() && table.len() <= cap;
                    for k in 0..6u64 { ok = ok && table.get(k).map(|e| e.value as u32) == model.get(k); }
                    if !ok {
                        if bad < 3 { println!("FAILING-INPUT: HashMapTranspositionTable capacity={} operations={:?}: disagrees with the FIFO map model", cap, trace); }
                        bad += 1;
                        break;
                    }
                }
            }
        }
        assert_eq!(bad, 0);
    }

    /// the bound holds for large tables too (the search's table holds ten million entries): a table of 2^24 entries, filled, then
    /// four more keys — never more entries than the capacity, oldest keys gone, newest present
    #[test]
    fn verif_witness_c18_large_capacity() {
        let cap: usize = 1 << 24;
        let mut table: HashTable<u64, ()> = HashTable::new(cap);
        for k in 0..cap as u64 { table.put(k, ()); }
        let mut bad = 0;
        if table.len() != cap { println!("FAILING-INPUT: capacity 2^24: after storing 2^24 distinct keys the table holds {} entries", table.len()); bad += 1; }
        for extra in 0..4u64 {
            table.put(cap as u64 + extra, ());
            if table.len() > cap {
                println!("FAILING-INPUT: capacity 2^24 = {}: after {} more keys the table holds {} entries", cap, extra + 1, table.len());
                bad += 1;
                break;
            }
        }
        if bad == 0 {
            for k in 0..4u64 { if table.get(k).is_some() { println!("FAILING-INPUT: capacity 2^24: the oldest key {} survived four evictions", k); bad += 1; } }
            if table.get(4).is_none() || table.get(cap as u64 + 3).is_none() { println!("FAILING-INPUT: capacity 2^24: a key that should be present is gone"); bad += 1; }
        }
        assert_eq!(bad, 0);
    }
}
