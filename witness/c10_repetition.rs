// witness probe for C10 (integration test of engine_core, public API only): a line that reaches a position for the
// third time inside the window since the last capture/pawn move is valued as a draw (+-contempt = 50cp) whatever the
// distance between the occurrences and wherever in the window the first one sits (including the window's first ply);
// a second occurrence is not a draw.
use std::str::FromStr;
use std::sync::mpsc::channel;
use std::sync::Arc;

use inkayaku_core::fen::Fen;
use inkayaku_engine_core::Engine;
use inkayaku_uci::command::CommandUciTx;
use inkayaku_uci::{Go, Score, UciCommand, UciEngine, UciMove, UciTxCommand};

fn last_score(fen: &str, moves: &[&str], only: &str, depth: u64) -> Score {
    let (tx, rx) = channel();
    let mut engine = Engine::new(Arc::new(CommandUciTx::new(tx)), false);
    engine.accept(UciCommand::UciNewGame);
    engine.accept(UciCommand::PositionFrom { fen: Fen::from_str(fen).unwrap(), moves: moves.iter().map(|s| UciMove::parse(s).unwrap()).collect() });
    engine.accept(UciCommand::Go { go: Go { depth: Some(depth), search_moves: vec![UciMove::parse(only).unwrap()], ..Go::default() } });
    let mut last = None;
    while let Ok(c) = rx.recv() {
        match c {
            UciTxCommand::Info { info } => { if info.score.is_some() { last = info.score; } }
            UciTxCommand::BestMove { .. } => break,
            _ => {}
        }
    }
    engine.accept(UciCommand::Quit);
    last.expect("no score")
}

/// the draw score up to the contempt offset (50 on the pinned tree; any offset up to 100 is accepted so that retuning it is not reported)
fn is_draw(s: &Score) -> bool { matches!(s, Score::Centipawn { score } if score.abs() <= 100) }

#[test]
fn witness_c10_repetition_window() {
    let mut bad = 0;
    // KQ v K: the material value is nowhere near +-50cp.  The kings shuffle; `prefix` reversible plies come first.
    for clock in [0u32, 1, 2, 7, 40] {
        for prefix in [0usize, 1, 2] {
            let fen = format!("4k3/8/8/8/8/8/3Q4/4K3 w - - {} 30", clock);
            let pre: &[&str] = match prefix { 0 => &[], 1 => &["d2c2"], _ => &["d2c2", "e8f8"] };
            // cycle of 4 plies for the side to move after the prefix
            let cyc: [&str; 4] = match prefix {
                0 => ["e1e2", "e8e7", "e2e1", "e7e8"],
                1 => ["e8e7", "e1e2", "e7e8", "e2e1"],
                _ => ["e1e2", "f8f7", "e2e1", "f7f8"],
            };
            let mut moves: Vec<&str> = pre.to_vec();
            moves.extend_from_slice(&cyc);
            moves.extend_from_slice(&cyc[..3]);
            for depth in 1..=3 {
                let s = last_score(&fen, &moves, cyc[3], depth);
                if !is_draw(&s) {
                    if bad < 5 { println!("FAILING-INPUT: fen={:?} moves={:?} then {} (third occurrence) depth {} valued {:?}, expected +-50cp", fen, moves, cyc[3], depth, s); }
                    bad += 1;
                }
            }
            // second occurrence only: not a draw
            let mut two: Vec<&str> = pre.to_vec();
            two.extend_from_slice(&cyc[..3]);
            let s = last_score(&fen, &two, cyc[3], 1);
            if is_draw(&s) {
                if bad < 5 { println!("FAILING-INPUT: fen={:?} moves={:?} then {} (second occurrence) valued {:?} as a draw", fen, two, cyc[3], s); }
                bad += 1;
            }
        }
    }
    assert_eq!(bad, 0);
}

/// only the game given with the LAST position command counts: what an earlier game (or an earlier search) left behind must not
/// turn a first occurrence into a repetition.  Game 1 shuffles a queen and a king; game 2 starts from a FEN with a non-zero
/// half-move clock, so its repetition window reaches back to plies the second command never wrote.
#[test]
fn witness_c10_earlier_games_do_not_count() {
    let two_games = |first_fen: &str, first_moves: &[&str], fen: &str, moves: &[&str], only: &str| -> Score {
        let (tx, rx) = channel();
        let mut engine = Engine::new(Arc::new(CommandUciTx::new(tx)), false);
        engine.accept(UciCommand::UciNewGame);
        engine.accept(UciCommand::PositionFrom { fen: Fen::from_str(first_fen).unwrap(), moves: first_moves.iter().map(|s| UciMove::parse(s).unwrap()).collect() });
        engine.accept(UciCommand::Go { go: Go { depth: Some(1), ..Go::default() } });
        while let Ok(c) = rx.recv() { if let UciTxCommand::BestMove { .. } = c { break; } }
        engine.accept(UciCommand::UciNewGame);
        engine.accept(UciCommand::PositionFrom { fen: Fen::from_str(fen).unwrap(), moves: moves.iter().map(|s| UciMove::parse(s).unwrap()).collect() });
        engine.accept(UciCommand::Go { go: Go { depth: Some(1), search_moves: vec![UciMove::parse(only).unwrap()], ..Go::default() } });
        let mut last = None;
        while let Ok(c) = rx.recv() {
            match c {
                UciTxCommand::Info { info } => { if info.score.is_some() { last = info.score; } }
                UciTxCommand::BestMove { .. } => break,
                _ => {}
            }
        }
        engine.accept(UciCommand::Quit);
        last.expect("no score")
    };
    let mut bad = 0;
    for clock in [4u32, 10, 30] {
        let first = "4k3/8/8/8/8/8/8/Q3K3 w - - 0 1";
        let first_moves = ["a1a2", "e8d8", "a2a1", "d8e8", "a1a2", "e8d8", "a2a1"];
        let fen = format!("4k3/8/8/8/8/8/8/1Q2K3 w - - {} 5", clock);
        let fresh = last_score(&fen, &[], "b1a2", 1);
        let after = two_games(first, &first_moves, &fen, &[], "b1a2");
        if fresh != after || is_draw(&after) {
            println!("FAILING-INPUT: after an earlier game {:?} {:?}, position {:?} go depth 1 searchmoves b1a2 is valued {:?}; a fresh engine values it {:?}", first, first_moves, fen, after, fresh);
            bad += 1;
        }
    }
    assert_eq!(bad, 0);
}

/// a repetition deep in the line counts even when the position is already in the transposition table from an earlier
/// iteration: perpetual check by a side that is otherwise lost; the root has occurred twice and recurs at ply 4
#[test]
fn witness_c10_repetition_at_ply_four_with_warm_table() {
    let fen = "1k6/1p6/8/Q7/8/5q2/PP4rr/K7 w - - 0 40";
    let lap = ["a5d8", "b8a7", "d8a5", "a7b8"];
    let mut bad = 0;
    for depth in [4u64, 5, 6] {
        let s = last_score(fen, &lap, "a5d8", depth);
        let ok = matches!(s, Score::Centipawn { score } if score.abs() <= 50);
        if !ok {
            println!("FAILING-INPUT: fen={:?} moves={:?} go depth {} searchmoves a5d8: the line returns to the root for the third time at ply 4 but is valued {:?}", fen, lap, depth, s);
            bad += 1;
        }
    }
    // sanity of the probe: without the lap in the history the side to move is simply lost
    let s = last_score(fen, &[], "a5d8", 4);
    assert!(matches!(s, Score::Centipawn { score } if score < -300) || matches!(s, Score::Mate { .. }), "probe position is not lost without the repetition: {:?}", s);
    assert_eq!(bad, 0);
}

/// an earlier `go` in the same game must not leave table entries behind that stand in for a line which now completes a
/// repetition: search a position once, come back to it by reversible moves, then ask about the move that reaches the third
/// occurrence
#[test]
fn witness_c10_repetition_after_an_earlier_search_of_the_same_position() {
    let fen = "4k3/8/8/8/8/8/3Q4/4K3 w - - 0 30";
    let (tx, rx) = channel();
    let mut engine = Engine::new(Arc::new(CommandUciTx::new(tx)), false);
    engine.accept(UciCommand::UciNewGame);
    let mv = |s: &str| UciMove::parse(s).unwrap();
    // first occurrence of the position after e1e2 e8e7 e2e1: searched to depth 3
    engine.accept(UciCommand::PositionFrom { fen: Fen::from_str(fen).unwrap(), moves: ["e1e2", "e8e7", "e2e1"].iter().map(|s| mv(s)).collect() });
    engine.accept(UciCommand::Go { go: Go { depth: Some(3), ..Go::default() } });
    while let Ok(c) = rx.recv() { if let UciTxCommand::BestMove { .. } = c { break; } }
    // the game goes on by reversible moves; e7e8 now reaches the root position for the third time
    let line = ["e1e2", "e8e7", "e2e1", "e7e8", "e1e2", "e8e7", "e2e1"];
    engine.accept(UciCommand::PositionFrom { fen: Fen::from_str(fen).unwrap(), moves: line.iter().map(|s| mv(s)).collect() });
    engine.accept(UciCommand::Go { go: Go { depth: Some(1), search_moves: vec![mv("e7e8")], ..Go::default() } });
    let mut last = None;
    while let Ok(c) = rx.recv() {
        match c {
            UciTxCommand::Info { info } => { if info.score.is_some() { last = info.score; } }
            UciTxCommand::BestMove { .. } => break,
            _ => {}
        }
    }
    engine.accept(UciCommand::Quit);
    let s = last.expect("no score");
    if !is_draw(&s) {
        println!("FAILING-INPUT: fen={:?}: after `go depth 3` on the position after [e1e2 e8e7 e2e1], the game {:?} + e7e8 (third occurrence) is valued {:?}, expected +-50cp", fen, line, s);
        panic!("repetition hidden by an entry of an earlier search");
    }
}

/// C13 through the engine: a `position` command with a rejected move changes nothing — whether its list is new or extends the
/// list of the game the engine already holds; the next `go` answers for the position held before
#[test]
fn witness_c10_rejected_position_command_changes_nothing() {
    use inkayaku_board::Bitboard;
    let startpos = "rnbqkbnr/pppppppp/8/8/8/8/PPPPPPPP/RNBQKBNR w KQkq - 0 1";
    let mut bad = 0;
    for (accepted, rejected) in [
        (&["e2e4"][..], &["e2e4", "e7e5", "e1e3"][..]),                       // extension ending in an unknown move
        (&["e2e4", "f7f6"][..], &["e2e4", "f7f6", "d1h5", "a7a6"][..]),       // extension whose last move leaves the king in check
        (&["d2d4"][..], &["e2e4", "f7f6", "d1h5", "a7a6"][..]),               // a different game
        (&["g1f3", "g8f6"][..], &["g1f3", "g8f6", "f3g1", "f6g8", "zzzz"][..]),
    ] {
        let (tx, rx) = channel();
        let mut engine = Engine::new(Arc::new(CommandUciTx::new(tx)), false);
        engine.accept(UciCommand::UciNewGame);
        let mv = |s: &str| UciMove::parse(s).ok();
        engine.accept(UciCommand::PositionFrom { fen: Fen::from_str(startpos).unwrap(), moves: accepted.iter().map(|s| mv(s).unwrap()).collect() });
        let rejected_moves: Vec<UciMove> = rejected.iter().filter_map(|s| mv(s).or_else(|| UciMove::parse("a1a1").ok())).collect();
        engine.accept(UciCommand::PositionFrom { fen: Fen::from_str(startpos).unwrap(), moves: rejected_moves });
        engine.accept(UciCommand::Go { go: Go { depth: Some(1), ..Go::default() } });
        let mut best = None;
        while let Ok(c) = rx.recv() { if let UciTxCommand::BestMove { best_move, .. } = c { best = best_move.map(|m| m.to_string()); break; } }
        engine.accept(UciCommand::Quit);
        let mut held = Bitboard::from_fen_string_unchecked(startpos);
        for m in accepted { held.make_uci(m).unwrap(); }
        let legal: Vec<String> = held.generate_legal_moves().iter().map(|m| m.to_uci_string()).collect();
        if !best.as_ref().map(|b| legal.contains(b)).unwrap_or(false) {
            println!("FAILING-INPUT: position startpos moves {:?} (accepted), then position startpos moves {:?} (rejected), go depth 1 -> bestmove {:?}, not a legal move of the position held before the rejected command", accepted, rejected, best);
            bad += 1;
        }
    }
    assert_eq!(bad, 0);
}

/// C13 through the engine, "repeated calls": a rejected position command leaves NOTHING behind — a later accepted command
/// reaches the position the rules define.  Compared with a fresh engine given only the accepted command: `go depth 1` and
/// `go depth 2` must answer the same move with the same score (the search is deterministic).
#[test]
fn witness_c10_rejected_position_command_leaves_nothing_behind() {
    let startpos = "rnbqkbnr/pppppppp/8/8/8/8/PPPPPPPP/RNBQKBNR w KQkq - 0 1";
    let answers = |cmds: &[(&str, &[&str])]| -> Vec<(Option<String>, Option<Score>)> {
        let (tx, rx) = channel();
        let mut engine = Engine::new(Arc::new(CommandUciTx::new(tx)), false);
        engine.accept(UciCommand::UciNewGame);
        for (fen, moves) in cmds {
            let list: Vec<UciMove> = moves.iter().filter_map(|s| UciMove::parse(s).ok()).collect();
            engine.accept(UciCommand::PositionFrom { fen: Fen::from_str(fen).unwrap(), moves: list });
        }
        let mut out = Vec::new();
        for depth in [1u64, 2] {
            engine.accept(UciCommand::Go { go: Go { depth: Some(depth), ..Go::default() } });
            let mut last = None;
            let mut best = None;
            while let Ok(c) = rx.recv() {
                match c {
                    UciTxCommand::Info { info } => { if info.score.is_some() { last = info.score; } }
                    UciTxCommand::BestMove { best_move, .. } => { best = best_move.map(|m| m.to_string()); break; }
                    _ => {}
                }
            }
            out.push((best, last));
        }
        engine.accept(UciCommand::Quit);
        out
    };
    let mut bad = 0;
    for (rejected, accepted) in [
        // the rejected list fails on a move that matches no move of the position reached; the accepted one starts with a move
        // whose text IS a move of that position (other piece, other undo data)
        (("4k3/8/8/8/8/8/4R3/4K3 w - - 0 1", &["e1e3"][..]), (startpos, &["e2e4"][..])),
        ((startpos, &["g1f3", "g8f6", "f3g1", "f6g8", "e2e5"][..]), (startpos, &["g1f3"][..])),
        ((startpos, &["e2e4", "e7e5", "e1e3"][..]), (startpos, &["e2e4", "e7e5", "g1f3"][..])),
        (("r3k2r/8/8/8/8/8/8/R3K2R w KQkq - 0 1", &["e1g1", "e8g8", "g1e1"][..]), ("r3k2r/8/8/8/8/8/8/R3K2R w - - 10 20", &["e1f1", "e8d8"][..])),
        // ... and a list rejected for leaving the king in check
        ((startpos, &["e2e4", "f7f6", "d1h5", "a7a6"][..]), (startpos, &["e2e4", "f7f6", "d1h5", "g7g6"][..])),
    ] {
        let fresh = answers(&[accepted]);
        let after = answers(&[rejected, accepted]);
        if fresh != after {
            println!("FAILING-INPUT: position fen {:?} moves {:?} (rejected), then position fen {:?} moves {:?}: go depth 1 / depth 2 answer {:?}; a fresh engine given only the second command answers {:?}", rejected.0, rejected.1, accepted.0, accepted.1, after, fresh);
            bad += 1;
        }
    }
    assert_eq!(bad, 0);
}
