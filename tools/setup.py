#!/usr/bin/env python3
"""setup: nothing to build — the framework is python3 + the pre-installed verus/kani. Verifies the tools are present."""
import shutil, sys
missing = [t for t in ("verus", "cargo", "python3") if shutil.which(t) is None]
if missing:
    print("missing tools:", missing); sys.exit(1)
print("setup ok")
