#!/usr/bin/env python3
"""regression over seeded/*: every recorded seeded change must still be reported (exit 1) by its property's check.
usage: tools/run_all_seeds.py [seed-id ...]   (uses scratch copies of /repo; /repo itself is not touched)"""
import json, os, subprocess, sys, glob
VERIF = os.path.dirname(os.path.dirname(os.path.abspath(__file__)))
extra = [a for a in sys.argv[1:] if a.startswith("--")]
ids = [a for a in sys.argv[1:] if not a.startswith("--")] or sorted(os.path.basename(d) for d in glob.glob(os.path.join(VERIF, "seeded", "*")) if os.path.isdir(d) and os.path.exists(os.path.join(d, "meta.json")))
bad = 0
for sid in ids:
    d = os.path.join(VERIF, "seeded", sid)
    meta = json.load(open(os.path.join(d, "meta.json")))
    prop = meta["property"]
    args = ["--tier", "thorough"] if meta.get("tier") == "thorough" else []
    p = subprocess.run([os.path.join(VERIF, "tools", "try_seed_scratch.sh"), prop, os.path.join(d, "patch.diff")] + args + extra, capture_output=True, text=True)
    verdict = "CAUGHT" if p.returncode == 1 else ("UNDECIDED" if p.returncode == 2 else "MISSED")
    if p.returncode != 1:
        bad += 1
    first = [l for l in p.stdout.splitlines() if l.startswith("VIOLATION")][:1]
    print(f"{sid}: {verdict} {first[0][:200] if first else ''}", flush=True)
sys.exit(1 if bad else 0)
