#!/usr/bin/env python3
"""verus_run.py — expand a unit from /repo's working tree, run Verus on it, classify the outcome.

Outcome per function: verified | failed (semantic diagnostic) | undecided (rlimit / timeout) ;
tool errors (rustc errors, unsupported constructs, lost anchors) make the whole unit `toolerror`.
"""
import json
import os
import re
import subprocess
import sys
import time

sys.path.insert(0, os.path.dirname(os.path.abspath(__file__)))
import extract  # noqa: E402

VERIF = extract.VERIF
# Generated units are verified in a directory of this process's own: checks of different properties may run at the same time
# and generate different texts under the same unit name (the vacuity canaries differ per property).  A copy of the last
# generated text is kept under .work/<unit>.rs for inspection; that is the path recorded in the evidence.
WORK_SHOWN = os.environ.get("VERIF_WORK", os.path.join(VERIF, ".work"))
WORK = WORK_SHOWN if os.environ.get("VERIF_WORK") else os.path.join(WORK_SHOWN, f"p{os.getpid()}")
if WORK != WORK_SHOWN:
    import atexit, shutil as _sh
    atexit.register(lambda: _sh.rmtree(WORK, ignore_errors=True))

SEMANTIC = (
    "postcondition not satisfied",
    "precondition not satisfied",
    "invariant not satisfied",
    "assertion failed",
    "possible arithmetic underflow/overflow",
    "possible bit shift underflow/overflow",
    "possible division by zero",
    "index out of bounds",
    "recommendation not met",
    "decreases not satisfied",
    "termination",
    "unreachable",
    "could not prove termination",
    "loop invariant not satisfied",
    "failed this",
    "constructed value may fail to meet its declared type invariant",
    "which evaluates to false",      # assert(..) by(compute) over constants: the computed fact is false
)
UNDECIDED = ("Resource limit", "rlimit", "timed out", "timeout")


class UnitResult:
    def __init__(self, unit):
        self.unit = unit
        self.status = "ok"        # ok | failed | undecided | toolerror
        self.tool_errors = []     # strings
        self.functions = {}       # name -> {"status", "mode", counts..., "time_ms", "rlimit"}
        self.failures = []        # {"function","message","obligation","origin","gen_line","rendered"}
        self.records = {}
        self.gen_path = None
        self.wall_s = 0.0
        self.smt_ms = 0
        self.cmd = ""
        self.verus_version = ""

    def obligations(self, fn_filter=None):
        n = 0
        for name, f in self.functions.items():
            if fn_filter and not fn_filter(name):
                continue
            n += obligations_of(f)
        return n


def obligations_of(f):
    if f["mode"] in ("spec", "external", "declared"):
        return 0
    return f["ensures"] + f["invariants"] + f["asserts"] + 1  # +1: safety (overflow, bounds, callee preconditions, panics, termination)


def short_name(verus_fn, crate):
    # "bm::Bitboard::make" -> "Bitboard::make" ; "core::..." stay
    p = crate + "::"
    return verus_fn[len(p):] if verus_fn.startswith(p) else verus_fn


def run_unit(unit, seed=None, rlimit=None, canary_for=None, extra_tag="", num_threads=None):
    """canary_for: optional list of function names; `assert(false)` is inserted at the start of each"""
    res = UnitResult(unit)
    t0 = time.time()
    try:
        text, linemap, rec = extract.expand_unit(unit)
    except extract.ExtractError as e:
        res.status = "toolerror"
        res.tool_errors.append(f"extract: {e}")
        return res
    res.records = rec
    # mechanical scan of the generated text for everything that is assumed rather than proved
    import re as _re
    res.records["assumption_scan"] = {
        "external_body": len(_re.findall(r"#\[verifier::external_body\]", text)),
        "assume_specification": len(_re.findall(r"\bassume_specification\b", text)),
        "assume": len(_re.findall(r"\bassume\s*\(", text)),
        "admit": len(_re.findall(r"\badmit\s*\(", text)),
        "uninterp_spec_fn": len(_re.findall(r"\buninterp\s+spec\s+fn\b", text)),
    }
    try:
        obl = extract.enumerate_obligations(text)
    except extract.ExtractError as e:
        res.status = "toolerror"
        res.tool_errors.append(f"enumerate: {e}")
        return res
    if canary_for is not None:
        text, linemap, obl = insert_canaries(text, linemap, obl, canary_for)
    os.makedirs(WORK, exist_ok=True)
    crate = unit + extra_tag
    gen = os.path.join(WORK, crate + ".rs")
    with open(gen, "w") as f:
        f.write(text)
    shown = os.path.join(WORK_SHOWN, crate + ".rs")
    if shown != gen:
        try:
            tmp_shown = shown + f".tmp{os.getpid()}"
            with open(tmp_shown, "w") as f:
                f.write(text)
            os.replace(tmp_shown, shown)
        except OSError:
            pass
    res.gen_path = gen
    cmd = ["verus", gen, "--output-json", "--time-expanded", "--error-format=json", "--multiple-errors", "5"]
    if rlimit:
        cmd += ["--rlimit", str(rlimit)]
    if seed is not None:
        cmd += ["--smt-option", f"smt.random_seed={seed % 100000}"]
    if num_threads:
        cmd += ["--num-threads", str(num_threads)]
    res.cmd = " ".join(cmd).replace(gen, shown)
    try:
        p = subprocess.run(cmd, cwd=WORK, capture_output=True, text=True, timeout=int(os.environ.get("VERIF_VERUS_TIMEOUT", "1500")))
    except subprocess.TimeoutExpired:
        res.status = "undecided"
        res.tool_errors.append("verus timed out")
        res.wall_s = time.time() - t0
        return res
    res.wall_s = time.time() - t0
    # stdout: JSON summary
    summary = None
    try:
        summary = json.loads(p.stdout[p.stdout.index("{"):])
    except Exception:
        res.status = "toolerror"
        res.tool_errors.append("verus produced no JSON summary: " + (p.stderr[-2000:] if p.stderr else ""))
        return res
    res.verus_version = summary.get("verus", {}).get("version", "")
    vr = summary.get("verification-results", {})
    # function table from static enumeration
    for name, f in obl.items():
        d = dict(f)
        d["status"] = "unknown"
        d["time_ms"] = 0
        d["rlimit"] = 0
        res.functions[name] = d
    try:
        mods = summary["times-ms"]["smt"]["smt-run-module-times"]
        res.smt_ms = summary["times-ms"]["smt"]["total"]
        for m in mods:
            for fb in m.get("function-breakdown", []):
                nm = short_name(fb["function"], crate)
                if nm in res.functions:
                    res.functions[nm]["status"] = "verified" if fb["success"] else "failed"
                    res.functions[nm]["time_ms"] = fb["time"]
                    res.functions[nm]["rlimit"] = fb["rlimit"]
    except KeyError:
        pass
    # stderr: diagnostics
    for line in p.stderr.splitlines():
        line = line.strip()
        if not line.startswith("{"):
            continue
        try:
            d = json.loads(line)
        except Exception:
            continue
        if d.get("level") != "error":
            continue
        msg = d.get("message", "")
        if msg.startswith("aborting due to"):
            continue
        spans = d.get("spans", [])
        prim = None
        for sp in spans:
            s2 = sp
            # macro expansions: walk to the span inside our generated file
            while s2 and not s2.get("file_name", "").endswith(os.path.basename(gen)) and s2.get("expansion"):
                s2 = s2["expansion"]["span"]
            if s2 and s2.get("file_name", "").endswith(os.path.basename(gen)):
                if sp.get("is_primary") or prim is None:
                    prim = s2
                    if sp.get("is_primary"):
                        break
        gen_line = prim["line_start"] if prim else None

        def fn_at(line):
            best = None
            for name, f in obl.items():
                if f["line"] <= line <= f["end"]:
                    if best is None or (obl[best]["end"] - obl[best]["line"]) > (f["end"] - f["line"]):
                        best = name
            return best
        fn = fn_at(gen_line) if gen_line is not None else None
        if fn is not None and obl[fn].get("mode") == "declared":
            # the clause that failed is written on a bodiless trait method: the function that failed is the impl method whose
            # body the other span of the diagnostic points into
            for sp in spans:
                s2 = sp
                while s2 and not s2.get("file_name", "").endswith(os.path.basename(gen)) and s2.get("expansion"):
                    s2 = s2["expansion"]["span"]
                if s2 and s2.get("file_name", "").endswith(os.path.basename(gen)):
                    alt = fn_at(s2["line_start"])
                    if alt is not None and obl[alt].get("mode") != "declared":
                        fn = alt
                        break
        origin = None
        if gen_line is not None and 1 <= gen_line <= len(linemap):
            o = linemap[gen_line - 1]
            origin = f"{o[1]}:{o[2]}"
        is_sem = any(k in msg for k in SEMANTIC)
        is_und = any(k in msg for k in UNDECIDED)
        entry = {"function": fn, "message": msg, "origin": origin, "gen_line": gen_line,
                 "rendered": d.get("rendered", "")[:4000]}
        if is_und:
            entry["kind"] = "undecided"
            if fn and fn in res.functions:
                res.functions[fn]["status"] = "undecided"
        elif is_sem and fn is not None:
            entry["kind"] = "semantic"
            kind = msg.replace("possible ", "").replace(" not satisfied", "").replace(" ", "-")
            if "which evaluates to false" in msg:
                kind = "compute-assertion-false"
            entry["obligation"] = f"{unit}::{fn}::{kind}@{origin}"
            if res.functions[fn]["status"] != "undecided":
                res.functions[fn]["status"] = "failed"
        else:
            entry["kind"] = "tool"
            res.tool_errors.append(f"{msg} @ {origin or gen_line}")
        res.failures.append(entry)
    compute_false = [e for e in res.failures if e.get("kind") == "semantic" and "compute-assertion-false" in e.get("obligation", "")]
    if (vr.get("encountered-vir-error") or (summary and "verified" not in vr)) and compute_false and not res.tool_errors:
        # an `assert(..) by(compute)` over constants evaluated to FALSE: Verus stops there (nothing else is checked in this run),
        # but the diagnostic itself is a definite refutation of a named obligation, not a tool problem
        res.status = "failed"
        res.aborted_after_compute = True
    elif vr.get("encountered-vir-error") or (summary and "verified" not in vr):
        res.status = "toolerror"
        if not res.tool_errors:
            res.tool_errors.append("verus reported a front-end error: " + p.stderr[-1500:])
    elif res.tool_errors:
        res.status = "toolerror"
    elif any(f["status"] == "undecided" for f in res.functions.values()):
        res.status = "undecided"
    elif any(f["status"] == "failed" for f in res.functions.values()):
        res.status = "failed"
    # functions Verus never mentioned (spec fns, consts): mark spec as n/a
    for f in res.functions.values():
        if f["status"] == "unknown":
            if f["mode"] in ("external", "declared"):
                f["status"] = "assumed"
            elif res.status in ("ok", "failed") and f["mode"] == "spec":
                f["status"] = "verified"
    return res


def insert_canaries(text, linemap, obl, names):
    """insert `proof { assert(false); }` right after the body-open brace of each named function.
    Done on the generated text; line numbers shift by one per insertion (same line => no shift: we insert inline)."""
    src = extract.Source(text, "<generated>")
    # locate each function body by scanning from its first line
    lines = text.split("\n")
    for name in names:
        f = obl.get(name)
        if not f:
            continue
        # find body '{' : first '{' token at depth 0 after the fn keyword on/after f["line"] that is followed by the matching end at f["end"]
        start_off = sum(len(l) + 1 for l in lines[:f["line"] - 1])
        k = 0
        while k < len(src.toks) and src.toks[k].s < start_off:
            k += 1
        # advance to `fn`
        while k < len(src.toks) and not (src.toks[k].kind == "id" and src.tt(k) == "fn"):
            k += 1
        j = k
        body = None
        while j < len(src.toks):
            if src.is_p(j, "{"):
                body = j
                break
            if src.is_p(j, ";"):
                break
            if src.toks[j].kind == "p" and src.text[src.toks[j].s] in "([":
                j = src.match[j]
            j += 1
        if body is None:
            continue
        f["canary_off"] = src.toks[body].e
    offs = sorted(((f["canary_off"], n) for n, f in obl.items() if "canary_off" in f), reverse=True)
    for off, n in offs:
        ins = " assert(false); " if obl[n]["mode"] == "proof" else " proof { assert(false); } "
        text = text[:off] + ins + text[off:]
    return text, linemap, obl


if __name__ == "__main__":
    r = run_unit(sys.argv[1])
    print(r.status, f"{r.wall_s:.1f}s", r.tool_errors)
    for n, f in r.functions.items():
        if f["status"] != "verified":
            print(" ", n, f["status"])
    for e in r.failures:
        print(" -", e.get("obligation") or e["message"], e["origin"])
    print("obligations:", r.obligations())
