#!/usr/bin/env python3
"""regenerate MANIFEST.json from tools/props.py (checks) and the fixed not_applicable reasons"""
import json, os, sys
sys.path.insert(0, os.path.dirname(os.path.abspath(__file__)))
import props
VERIF = os.path.dirname(os.path.dirname(os.path.abspath(__file__)))
m = json.load(open(os.path.join(VERIF, "MANIFEST.json")))
checks = []
for pid in sorted(props.PROPS):
    c = props.PROPS[pid]
    checks.append({
        "property_id": pid,
        "quick_cmd": f"bin/check {pid} --tier quick",
        "thorough_cmd": f"bin/check {pid} --tier thorough",
        "evidence_file": f"/verif/evidence/{pid}.json",
        "replay_cmd_template": f"bin/check {pid} --replay {{path}}",
        "engine": "verus+kani" if c.get("kani") else "verus",
        "level_claimed": {"category": "proof", "text": c.get("level_text", c["title"]), "design_ref": c.get("design_ref", "DESIGN.md §3")},
        "level_note": c.get("level_note", "; ".join(c.get("assumptions", []))[:1500]),
        "technique": c.get("technique", "contract-based deductive verification: Verus contracts on the real functions, re-extracted verbatim every run"),
    })
m["checks"] = checks
claimed = set(props.PROPS)
m["not_applicable"] = [x for x in m.get("not_applicable", []) if x["property_id"] not in claimed]
m["engines"] = [
    {"name": "verus", "path": "tools/verus_run.py", "serves_properties": sorted(p for p in props.PROPS if props.PROPS[p].get("units")), "kind_free_text": "Verus 0.2026.09.13 (Z3): modular contracts on functions extracted verbatim from /repo on every run"},
    {"name": "kani", "path": "tools/kani_run.py", "serves_properties": sorted(p for p in props.PROPS if props.PROPS[p].get("kani")), "kind_free_text": "Kani 0.68 / CBMC 6.11: constant-table facts, full-domain loop-free harnesses (complete), labelled bounded stand-ins"},
]
json.dump(m, open(os.path.join(VERIF, "MANIFEST.json"), "w"), indent=1)
print("manifest:", [c["property_id"] for c in checks], "n/a:", [x["property_id"] for x in m["not_applicable"]])
