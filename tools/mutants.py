#!/usr/bin/env python3
"""mutants.py — a small battery of hand-picked single-edit mutants of /repo, used to look for blind spots of the checks.
Each mutant is (id, property, file, old, new).  The script writes the diff to /tmp, runs bin/check on a scratch copy
(tools/try_seed_scratch.sh) and prints the exit code.  Nothing is written to /repo.  Mutants are NOT seeds: nobody
checked that they pass the test suite; they only probe whether a contract notices the edit."""
import difflib, os, subprocess, sys
M = [
 ("m01", "C01", "board/src/board/constants.rs", "WHITE_KING_SIDE_CASTLE_EMPTY_OCCUPANCY: OccupancyBits = F1_MASK | G1_MASK;", "WHITE_KING_SIDE_CASTLE_EMPTY_OCCUPANCY: OccupancyBits = G1_MASK;"),
 ("m02", "C01", "board/src/board/constants.rs", "BLACK_QUEEN_SIDE_CASTLE_CHECK_OCCUPANCY: OccupancyBits = C8_MASK | D8_MASK | E8_MASK;", "BLACK_QUEEN_SIDE_CASTLE_CHECK_OCCUPANCY: OccupancyBits = B8_MASK | C8_MASK | D8_MASK | E8_MASK;"),
 ("m03", "C01", "board/src/board.rs", "self.make_castle_move(result, E8, G8);", "self.make_castle_move(result, E8, C8);"),
 ("m04", "C02", "board/src/board.rs", "self.fullmove_clock += self.turn;", "self.fullmove_clock += 1 - self.turn;"),
 ("m05", "C03", "board/src/board.rs", "self.fullmove_clock -= 1 - self.turn;", "self.fullmove_clock -= self.turn;"),
 ("m06", "C05", "board/src/board.rs", "pub fn is_in_check(&self, color: &Color) -> bool {\n        self._is_in_check_by_bits(color.index)", "pub fn is_in_check(&self, color: &Color) -> bool {\n        self._is_in_check_by_bits(1 - color.index)"),
 ("m07", "C11", "engine_core/src/engine/search.rs", "1 + (color as i32) * -2", "1 - (color as i32)"),
 ("m08", "C10", "engine_core/src/engine/search.rs", "let contempt_factor_factor = if ply_depth_from_root % 2 == 0 { 1 } else { -1 };", "let contempt_factor_factor = if ply_depth_from_root % 2 == 0 { 2 } else { -1 };"),
 ("m09", "C06", "engine_core/src/engine/search.rs", "zobrist_pawn_hash ^ Bitboard::zobrist_xor(*mv).1", "zobrist_pawn_hash ^ Bitboard::zobrist_xor(*mv).0"),
 ("m10", "C10", "board/src/board.rs", "(2 * (self.fullmove_clock - 1) + self.turn) as u16", "(2 * (self.fullmove_clock - 1) + 1 - self.turn) as u16"),
 ("m11", "C13", "board/src/board.rs", "                    for mv in potential_unmake.iter().rev() {", "                    for mv in potential_unmake.iter().rev().skip(1) {"),
 ("m12", "C18", "engine_core/src/engine/table.rs", "self.entry_map.get(&key)", "self.entry_map.get(&(key ^ 1))"),
 ("m13", "C09", "engine_core/src/engine/search.rs", "            if self.flags.stop_as_soon_as_possible {\n                self.state.bitboard.unmake(*mv);\n                return ValuedMove::new(0, None, None);", "            if self.flags.stop_as_soon_as_possible {\n                return ValuedMove::new(0, None, None);"),
 ("m14", "C05", "engine_core/src/engine/heuristic.rs", "(true, color) if color == WHITE => self.loss_score() + bitboard.fullmove_clock as i32,", "(true, color) if color == WHITE => self.loss_score() - bitboard.fullmove_clock as i32,"),
 ("m15", "C04", "board/src/board/precalculated/magic.rs", None, None),
 ("m16", "C15", "uci/src/uci.rs", None, None),
 ("m17", "C01", "board/src/board.rs", "self.white.queen_side_castle\n                && (full_occupancy & WHITE_QUEEN_SIDE_CASTLE_EMPTY_OCCUPANCY) == 0", "self.white.king_side_castle\n                && (full_occupancy & WHITE_QUEEN_SIDE_CASTLE_EMPTY_OCCUPANCY) == 0"),
 ("m18", "C10", "engine_core/src/engine/search.rs", "        zobrist_history.set(board.ply_clock(), board.calculate_zobrist_hash());\n\n        let mut bb_moves", "        let mut bb_moves"),
 ("m19", "C10", "engine_core/src/engine/zobrist_history.rs", None, None),
 ("m20", "C06", "engine_core/src/engine/search.rs", "                self.state.bitboard.calculate_zobrist_pawn_hash(),\n            );", "                self.state.bitboard.calculate_zobrist_hash(),\n            );"),
]
def main():
    only = set(sys.argv[1:])
    for mid, prop, f, old, new in M:
        if only and mid not in only: continue
        if old is None: continue
        src = open(os.path.join("/repo", f)).read()
        if src.count(old) != 1:
            print(mid, prop, "ANCHOR", src.count(old)); continue
        mut = src.replace(old, new)
        d = "".join(difflib.unified_diff(src.splitlines(True), mut.splitlines(True), "a/" + f, "b/" + f))
        p = f"/tmp/p/mut_{mid}.diff"
        open(p, "w").write(d)
        r = subprocess.run(["/verif/tools/try_seed_scratch.sh", prop, p, "--no-canary", "--no-kani"], capture_output=True, text=True)
        last = [l for l in r.stdout.strip().split("\n") if l][-3:]
        print(mid, prop, "exit", r.returncode, "|", " || ".join(x[:160] for x in last[:2]), flush=True)
main()
