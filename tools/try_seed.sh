#!/bin/bash
# usage: tools/try_seed.sh <property id> <patch file> [extra bin/check args]
# applies a seeded change to /repo, runs the property's check, and ALWAYS restores /repo afterwards
set -u
ID="$1"; PATCH="$2"; shift 2
cd /repo || exit 3
if [ -n "$(git status --porcelain --untracked-files=no)" ]; then echo "repo working tree not clean"; exit 3; fi
git apply "$PATCH" || { echo "patch does not apply"; exit 3; }
cd /verif
VERIF_WORK=/verif/.work/seed bin/check "$ID" "$@" > /tmp/try_seed.$ID.log 2>&1
RC=$?
git -C /repo checkout -- .
grep -E "VIOLATION|KNOWN-FINDING|UNDECIDED|: OK|violation\(s\)|undecided" /tmp/try_seed.$ID.log | cut -c1-400
echo "exit=$RC"
# the evidence file of this run describes the seeded tree: restore the committed one
git -C /verif checkout -- evidence/$ID.json 2>/dev/null
exit $RC
