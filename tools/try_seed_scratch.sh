#!/bin/bash
# usage: tools/try_seed_scratch.sh <property id> <patch file> [extra bin/check args]
# like try_seed.sh but on a scratch copy of /repo (VERIF_REPO), so that /repo stays untouched while other work goes on
set -u
ID="$1"; PATCH="$2"; shift 2
S=/tmp/seedrepo-$ID-$$
mkdir -p $S && rsync -a --exclude /target --exclude .git /repo/ $S/repo/ || exit 3
(cd $S/repo && patch -p1 -s < "$PATCH") || { echo "patch does not apply"; rm -rf $S; exit 3; }
cd /verif
cp evidence/$ID.json /tmp/evidence.$ID.$$.bak 2>/dev/null
VERIF_REPO=$S/repo VERIF_WORK=/verif/.work/seed-$ID-$$ VERIF_SCRATCH_BASE=$S bin/check "$ID" "$@" > /tmp/try_seed.$ID.$$.log 2>&1
RC=$?
rm -rf $S /verif/.work/seed-$ID-$$
grep -E "VIOLATION|KNOWN-FINDING|UNDECIDED|: OK|violation\(s\)|undecided" /tmp/try_seed.$ID.$$.log | cut -c1-400
echo "exit=$RC"
cp /tmp/evidence.$ID.$$.bak evidence/$ID.json 2>/dev/null
exit $RC
