#!/usr/bin/env python3
"""kani_run.py — run Kani harness modules against a scratch copy of /repo's working tree.

Nothing is extracted or retyped: /repo is copied (without target/) to a scratch directory outside /repo and
/verif, each harness module of a *set* is appended as `#[cfg(kani)] mod verif_kani { use super::*; .. }` to the
source file whose private items it needs, and `cargo kani` is run there.  The scratch copy is removed afterwards.
"""
import json
import os
import re
import shutil
import subprocess
import sys
import time

sys.path.insert(0, os.path.dirname(os.path.abspath(__file__)))
import scratch  # noqa: E402
import spec2rust  # noqa: E402

VERIF = scratch.VERIF


def spec_twin(files):
    text, done, skipped = spec2rust.translate_files([os.path.join(VERIF, f) for f in files])
    return text, done, skipped


# ---- harness sets -------------------------------------------------------------------------------------------
# each set: package, file to append to, module text builder, harness list (name -> {"complete": bool, "bound": str|None})
def _read(rel):
    return open(os.path.join(VERIF, rel)).read()


def set_rules():
    twin, done, skipped = spec_twin(["spec/move_fields.rs", "spec/view.rs", "spec/rules_base.rs", "spec/rules.rs"])
    body = "use crate::board::constants::*;\n" + twin + _read("kani/rules.rs")
    return {"package": "inkayaku_board", "append_to": "board/src/board.rs", "module": body,
            "twin": {"translated": done, "skipped": skipped}}


SETS = {
    "rules": set_rules,
}

HARNESSES = {
    # set -> harness -> meta
    "rules": {
        "wf_preserved": {"complete": True, "note": "full symbolic position (12 bitboards, rights, side, e.p., clocks) and packed move; loop-free"},
    },
}


def parse_kani_output(out):
    """split cargo kani output into per-harness results"""
    res = {}
    blocks = re.split(r"(?m)^Checking harness ", out)
    for b in blocks[1:]:
        name = b.split("...")[0].strip().split("::")[-1]
        status = "UNKNOWN"
        m = re.search(r"VERIFICATION:-\s*(\w+)", b)
        if m:
            status = m.group(1)  # SUCCESSFUL / FAILED
        tm = re.search(r"Verification Time:\s*([0-9.]+)s", b)
        failed = re.findall(r"(?m)^Failed Checks: (.*)$", b)
        covers = re.findall(r"(\d+) of (\d+) cover properties satisfied", b)
        checks = re.search(r"\*\* (\d+) of (\d+) failed", b)
        unwind_fail = "unwinding assertion" in " ".join(failed)
        res[name] = {"status": status, "time_s": float(tm.group(1)) if tm else None, "failed_checks": failed[:10],
                     "covers": [int(covers[0][0]), int(covers[0][1])] if covers else None,
                     "checks_total": int(checks.group(2)) if checks else None,
                     "checks_failed": int(checks.group(1)) if checks else None,
                     "unwinding_failed": unwind_fail, "tail": b[-1500:]}
    return res


def run_set(set_name, harness_names=None, jobs=None, timeout=3600, playback=False, extra_args=()):
    cfg = SETS[set_name]()
    names = harness_names or list(HARNESSES[set_name])
    jobs = jobs or min(16, max(1, len(names)))
    t0 = time.time()
    base = os.environ.get("VERIF_SCRATCH_BASE", "/tmp")
    sdir = os.path.join(base, f"verif-kani-{set_name}")
    shutil.rmtree(sdir, ignore_errors=True)
    os.makedirs(sdir)
    repo = os.path.join(sdir, "repo")
    try:
        subprocess.run(["rsync", "-a", "--exclude", "/target", "--exclude", ".git", scratch.REPO + "/", repo + "/"], check=True)
        with open(os.path.join(repo, cfg["append_to"]), "a") as f:
            f.write("\n#[cfg(kani)]\n#[allow(unused_imports, dead_code, unused_variables, clippy::all)]\nmod verif_kani {\nuse super::*;\n" + cfg["module"] + "\n}\n")
        for extra_rel, extra_text in cfg.get("extra_appends", []):
            with open(os.path.join(repo, extra_rel), "a") as f:
                f.write(extra_text)
        cmd = ["cargo", "kani", "-p", cfg["package"], "-Z", "function-contracts", "-Z", "stubbing", "-j", str(jobs),
               "--output-format", "terse"] + list(cfg.get("args", [])) + list(extra_args)
        if playback:
            cmd += ["-Z", "concrete-playback", "--concrete-playback=print"]
        for n in names:
            cmd += ["--harness", f"verif_kani::{n}"]
        env = scratch.cargo_env("target-kani")
        try:
            p = subprocess.run(cmd, cwd=repo, env=env, capture_output=True, text=True, timeout=timeout)
            out = p.stdout + "\n" + p.stderr
            rc = p.returncode
        except subprocess.TimeoutExpired as e:
            out = (e.stdout or b"").decode(errors="replace") if isinstance(e.stdout, bytes) else (e.stdout or "")
            out += "\nKANI-TIMEOUT"
            rc = 124
    finally:
        shutil.rmtree(sdir, ignore_errors=True)
    res = parse_kani_output(out)
    compile_error = ("error: could not compile" in out) or ("error[E" in out) or (rc != 0 and not res)
    return {"set": set_name, "cmd": " ".join(cmd), "rc": rc, "results": res, "wall_s": round(time.time() - t0, 1),
            "compile_error": compile_error, "output_tail": out[-6000:], "twin": cfg.get("twin"), "requested": names}


def run_for_property(prop, cfg, tier, seed):
    """cfg['kani'] = list of {"set":..., "harnesses":[...], "tier": "quick"|"thorough"}"""
    info = {"undecided": [], "violations": [], "obligations": 0, "discharged": 0, "cmds": [], "bounded": [], "summary": [], "ledger": {}}
    for part in cfg["kani"]:
        if part.get("tier", "quick") == "thorough" and tier != "thorough":
            continue
        r = run_set(part["set"], part.get("harnesses"), timeout=part.get("timeout", 3000))
        info["cmds"].append(r["cmd"])
        if r["compile_error"]:
            info["undecided"].append(f"set {part['set']}: build/tool error: {r['output_tail'][-800:]}")
            continue
        for h in r["requested"]:
            meta = HARNESSES[part["set"]].get(h, {})
            hr = r["results"].get(h)
            oid = f"kani::{part['set']}::{h}"
            if hr is None:
                info["undecided"].append(f"{oid}: harness produced no result")
                continue
            info["obligations"] += 1
            entry = {"harness": oid, "status": hr["status"], "time_s": hr["time_s"], "checks": hr["checks_total"],
                     "complete": meta.get("complete", False), "bound": meta.get("bound"), "note": meta.get("note")}
            info["summary"].append(entry)
            if not meta.get("complete", False):
                info["bounded"].append({"harness": oid, "bound": meta.get("bound"), "status": hr["status"]})
            if hr["status"] == "SUCCESSFUL":
                if hr["covers"] and hr["covers"][0] < hr["covers"][1]:
                    info["undecided"].append(f"{oid}: VACUOUS: a cover property is unreachable ({hr['covers'][0]} of {hr['covers'][1]} satisfied)")
                else:
                    info["discharged"] += 1
                    info["ledger"][oid] = {"checks": hr["checks_total"], "backend": "kani"}
            elif hr["status"] == "FAILED":
                if hr["unwinding_failed"] and all("unwinding" in c for c in hr["failed_checks"]):
                    info["undecided"].append(f"{oid}: unwinding bound too small")
                else:
                    v = {"obligation": oid, "unit": part["set"], "function": h, "message": "; ".join(hr["failed_checks"])[:500],
                         "origin": f"kani/{part['set']}.rs", "verifier_output": hr["tail"], "backend": "kani", "seed": seed}
                    info["violations"].append(v)
            else:
                info["undecided"].append(f"{oid}: {hr['status']} ({'timeout' if r['rc'] == 124 else 'no verdict'})")
    return info


if __name__ == "__main__":
    r = run_set(sys.argv[1], sys.argv[2:] or None)
    print(json.dumps({k: v for k, v in r.items() if k not in ("output_tail",)}, indent=1)[:6000])
    if r["compile_error"] or not r["results"]:
        print(r["output_tail"])
