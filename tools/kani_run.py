#!/usr/bin/env python3
"""kani_run.py — run Kani harness modules against a scratch copy of /repo's working tree.

Nothing is extracted or retyped: /repo is copied (without target/) to a scratch directory outside /repo and
/verif, each harness module of a *set* is appended as `#[cfg(kani)] mod verif_kani { use super::*; .. }` to the
source file whose private items it needs, and `cargo kani` is run there.  The scratch copy is removed afterwards.
"""
import json
import os
import re
import shutil
import subprocess
import sys
import time

sys.path.insert(0, os.path.dirname(os.path.abspath(__file__)))
import scratch  # noqa: E402
import spec2rust  # noqa: E402

VERIF = scratch.VERIF


def spec_twin(files):
    text, done, skipped = spec2rust.translate_files([os.path.join(VERIF, f) for f in files])
    return text, done, skipped


# ---- harness sets -------------------------------------------------------------------------------------------
# each set: package, file to append to, module text builder, harness list (name -> {"complete": bool, "bound": str|None})
def _read(rel):
    return open(os.path.join(VERIF, rel)).read()


def set_rules():
    twin, done, skipped = spec_twin(["spec/move_fields.rs", "spec/view.rs", "spec/rules_base.rs", "spec/rules.rs"])
    body = "use crate::board::constants::*;\n" + twin + _read("kani/rules.rs")
    return {"package": "inkayaku_board", "append_to": "board/src/board.rs", "module": body,
            "twin": {"translated": done, "skipped": skipped}}


def set_attacks():
    twin, done, skipped = spec_twin(["spec/view.rs", "spec/rules_base.rs", "spec/attack.rs"])
    body = "use crate::board::constants::*;\n" + _read("kani/oracle.rs") + twin + _read("kani/attacks.rs")
    return {"package": "inkayaku_board", "append_to": "board/src/board.rs", "module": body, "twin": {"translated": done, "skipped": skipped}}


def set_tables():
    body = _read("kani/oracle.rs") + _read("kani/tables.rs")
    for kind, table, dirs in (("rook", "ROOK_MAGICS", "ROOK_DIRS"), ("bishop", "BISHOP_MAGICS", "BISHOP_DIRS")):
        for sq in range(64):
            body += f"""
#[kani::proof]
#[kani::unwind(9)]
fn {kind}_sq_{sq:02}() {{
    let occ: u64 = kani::any();
    kani::cover!(occ != 0);
    assert_eq!({table}.get_attacks({sq}, occ), ray_ref({sq}, occ, &{dirs}));
}}
"""
    return {"package": "inkayaku_board", "append_to": "board/src/board.rs", "module": body}


def set_zobrist():
    return {"package": "inkayaku_board", "append_to": "board/src/board/zobrist.rs", "module": _read("kani/zobrist.rs")}


def set_eval():
    return {"package": "inkayaku_engine_core", "append_to": "engine_core/src/engine/heuristic/simple.rs", "module": _read("kani/eval.rs")}


def set_square():
    return {"package": "inkayaku_core", "append_to": "core/src/constants/square.rs", "module": _read("kani/square.rs")}


def set_history():
    return {"package": "inkayaku_engine_core", "append_to": "engine_core/src/engine/zobrist_history.rs", "module": _read("kani/history.rs")}


def set_piece():
    return {"package": "inkayaku_core", "append_to": "core/src/constants/piece.rs", "module": _read("kani/piece.rs")}


def set_fensquare():
    return {"package": "inkayaku_board", "append_to": "board/src/board/constants.rs", "module": _read("kani/fensquare.rs")}


def set_ucimove():
    return {"package": "inkayaku_uci", "append_to": "uci/src/uci.rs", "module": _read("kani/ucimove.rs")}


SETS = {
    "fensquare": set_fensquare,
    "piece": set_piece,
    "attacks": set_attacks,
    "ucimove": set_ucimove,
    "history": set_history,
    "square": set_square,
    "eval": set_eval,
    "zobrist": set_zobrist,
    "rules": set_rules,
    "tables": set_tables,
}

def _table_harnesses():
    h = {}
    for kind in ("rook", "bishop"):
        for sq in range(64):
            h[f"{kind}_sq_{sq:02}"] = {"complete": True, "note": f"{kind} magic lookup on square {sq} for all 2^64 occupancies vs ray oracle; ray loops bounded by board width (unwind 9, unwinding assertions on); get_unchecked dereferences checked by CBMC"}
    for t in ("king_table", "knight_table", "white_pawn_table", "black_pawn_table"):
        h[t] = {"complete": True, "note": "all 64 squares (symbolic) vs step oracle clipped at the board edge"}
    return h


HARNESSES = {
    "tables": _table_harnesses(),
    "attacks": {
        "oracle_rook_is_rook_reach": {"complete": True, "note": "symbolic square, target and 64-bit occupancy; loops bounded by 64 (quantifier over squares) and the board width, unwinding assertions on"},
        "oracle_bishop_is_bishop_reach": {"complete": True, "note": "as above, diagonals"},
        "oracle_steps_are_step_predicates": {"complete": True, "note": "knight, king, white and black pawn step oracles vs the step predicates, symbolic squares"},
    },
    "ucimove": {
        "uci_move_from_str_ascii_le5": {"complete": False, "bound": "ASCII strings of length <= 5 (every well-formed move text has length 4 or 5)", "note": "real UciMove::from_str incl. str::chars decoding and the error closures"},
    },
    "history": {
        "count_repetitions_bounded_10": {"complete": False, "bound": "current ply index < 10 (symbolic hashes for plies 0..9, any u16 half-move clock); loops unwound 12 times with unwinding assertions",
                                         "note": "bounded stand-in next to the unbounded Verus proof of unit history"},
    },
    "piece": {
        "piece_from_char_total_and_exact": {"complete": True, "note": "all chars, loop-free"},
    },
    "fensquare": {
        "square_shift_from_fen_is_exact_on_square_names": {"complete": True, "note": "all 64 square names (symbolic file and rank bytes), loop-free apart from the 2-char decoding"},
    },
    "square": {
        "from_chars_total_and_exact": {"complete": True, "note": "all char x char pairs, loop-free"},
    },
    "eval": {
        "black_tables_are_mirrored_white_tables": {"complete": True, "note": "symbolic (stage, piece, square) over the real constant tables"},
        "tables_bounded": {"complete": True, "note": "symbolic (stage, piece, square) over the real constant tables"},
        "material_and_stage_are_colour_symmetric": {"complete": True, "note": "popcount / emptiness are invariant under the vertical flip (byte swap), symbolic bitboards"},
    },
    "zobrist": {
        "accessors_in_bounds_and_zero_rows": {"complete": True, "note": "symbolic (piece<7, square<64, color<=1) and any e.p. square"},
        "castle_keys": {"complete": True, "note": "concrete: the four castle constants"},
        "keys_nonzero_distinct": {"complete": True, "note": "symbolic pair of indices over all 781 keys"},
        "two_piece_exchange_changes_hash": {"complete": True, "note": "symbolic (piece, colour) x2 and two squares: exchanging two different pieces between two squares changes the hash"},
    },
    # set -> harness -> meta
    "rules": {
        "wf_preserved": {"complete": True, "note": "full symbolic position (12 bitboards, rights, side, e.p., clocks) and packed move; loop-free"},
        "make_move_emits_wf": {"complete": True, "note": "real Bitboard::make_move on a full symbolic position and a symbolic consistent request; loop-free"},
        "make_all_uci_all_or_nothing_len2": {"complete": False, "bound": "move lists of length <= 2 (k <= 1 accepted moves, then one rejected); find_uci stubbed: the accepted answers are ANY move well-formed for the current position",
                                             "note": "real make_all_uci / make_uci / make / unmake on a full symbolic position"},
        "make_is_rules_succ_and_unmake_restores": {"complete": True, "note": "real Bitboard::make / unmake on a full symbolic position and any packed move satisfying move_wf; loop-free"},
    },
}


def parse_kani_output(out):
    """split cargo kani output (single- or multi-threaded) into per-harness results"""
    cur = {}        # thread id -> harness name
    blocks = {}     # harness -> text
    active = None   # harness whose block we are in
    for ln in out.splitlines():
        m = re.match(r"^(?:Thread (\d+): )?Checking harness (\S+?)\.\.\.", ln)
        if m:
            name = m.group(2).split("::")[-1]
            cur[m.group(1)] = name
            blocks.setdefault(name, "")
            active = name if m.group(1) is None else None
            continue
        m = re.match(r"^Thread (\d+):\s*(.*)$", ln)
        if m:
            active = cur.get(m.group(1))
            if active is not None:
                blocks[active] += m.group(2) + "\n"
            continue
        if ln.startswith("Manual Harness Summary") or ln.startswith("Complete - "):
            active = None
            continue
        if active is not None:
            blocks[active] += ln + "\n"
    res = {}
    for name, b in blocks.items():
        status = "UNKNOWN"
        m = re.search(r"VERIFICATION:-\s*(\w+)", b)
        if m:
            status = m.group(1)  # SUCCESSFUL / FAILED
        tm = re.search(r"Verification Time:\s*([0-9.]+)s", b)
        failed = re.findall(r"(?m)^Failed Checks: (.*)$", b)
        covers = re.findall(r"(\d+) of (\d+) cover properties satisfied", b)
        checks = re.search(r"\*\* (\d+) of (\d+) failed", b)
        unwind_fail = "unwinding assertion" in " ".join(failed)
        res[name] = {"status": status, "time_s": float(tm.group(1)) if tm else None, "failed_checks": failed[:10],
                     "covers": [int(covers[0][0]), int(covers[0][1])] if covers else None,
                     "checks_total": int(checks.group(2)) if checks else None,
                     "checks_failed": int(checks.group(1)) if checks else None,
                     "unwinding_failed": unwind_fail, "tail": b[-1500:]}
    return res


def run_set(set_name, harness_names=None, jobs=None, timeout=3600, playback=False, extra_args=()):
    # the scratch copy lives at a fixed path per set (so that cargo's cache in the shared target directory is reused) and
    # every Kani run uses all cores: one Kani run at a time, also across concurrently running checks of other properties
    with scratch.cargo_lock("target-kani"):
        return _run_set(set_name, harness_names, jobs, timeout, playback, extra_args)


def _run_set(set_name, harness_names=None, jobs=None, timeout=3600, playback=False, extra_args=()):
    cfg = SETS[set_name]()
    names = harness_names or list(HARNESSES[set_name])
    jobs = jobs or min(16, max(1, len(names)))
    t0 = time.time()
    base = os.environ.get("VERIF_SCRATCH_BASE", "/tmp")
    sdir = os.path.join(base, f"verif-kani-{set_name}")
    shutil.rmtree(sdir, ignore_errors=True)
    os.makedirs(sdir)
    repo = os.path.join(sdir, "repo")
    try:
        subprocess.run(["rsync", "-a", "--exclude", "/target", "--exclude", ".git", scratch.REPO + "/", repo + "/"], check=True)
        scratch.freshen(repo)
        with open(os.path.join(repo, cfg["append_to"]), "a") as f:
            f.write("\n#[cfg(kani)]\n#[allow(unused_imports, dead_code, unused_variables, clippy::all)]\nmod verif_kani {\nuse super::*;\n" + cfg["module"] + "\n}\n")
        for extra_rel, extra_text in cfg.get("extra_appends", []):
            with open(os.path.join(repo, extra_rel), "a") as f:
                f.write(extra_text)
        cmd = ["cargo", "kani", "-p", cfg["package"], "-Z", "function-contracts", "-Z", "stubbing", "-j", str(jobs),
               "--output-format", "terse"] + list(cfg.get("args", [])) + list(extra_args)
        if playback:
            cmd += ["-Z", "concrete-playback", "--concrete-playback=print"]
        for n in names:
            cmd += ["--harness", f"verif_kani::{n}"]
        env = scratch.cargo_env("target-kani")
        try:
            p = subprocess.run(cmd, cwd=repo, env=env, capture_output=True, text=True, timeout=timeout)
            out = p.stdout + "\n" + p.stderr
            rc = p.returncode
        except subprocess.TimeoutExpired as e:
            out = (e.stdout or b"").decode(errors="replace") if isinstance(e.stdout, bytes) else (e.stdout or "")
            out += "\nKANI-TIMEOUT"
            rc = 124
    finally:
        shutil.rmtree(sdir, ignore_errors=True)
    res = parse_kani_output(out)
    compile_error = ("error: could not compile" in out) or ("error[E" in out) or (rc != 0 and not res)
    return {"set": set_name, "cmd": " ".join(cmd), "rc": rc, "results": res, "wall_s": round(time.time() - t0, 1),
            "compile_error": compile_error, "output_tail": out[-6000:], "full_output": out if playback else "",
            "twin": cfg.get("twin"), "requested": names}


REPLAY_SHIM = r"""
mod kani {
    use std::cell::RefCell;
    thread_local! { pub static VALS: RefCell<Vec<Vec<u8>>> = RefCell::new(Vec::new()); }
    pub trait Replay { fn from_le(b: &[u8]) -> Self; }
    macro_rules! int_replay { ($($t:ty),*) => { $(impl Replay for $t { fn from_le(b: &[u8]) -> Self { let mut a = [0u8; std::mem::size_of::<$t>()]; a.copy_from_slice(&b[..std::mem::size_of::<$t>()]); <$t>::from_le_bytes(a) } })* } }
    int_replay!(u8, u16, u32, u64, u128, usize, i8, i16, i32, i64, isize);
    impl Replay for bool { fn from_le(b: &[u8]) -> Self { b[0] != 0 } }
    impl Replay for char { fn from_le(b: &[u8]) -> Self { char::from_u32(<u32 as Replay>::from_le(b)).expect("REPLAY: invalid char") } }
    pub fn next() -> Vec<u8> { VALS.with(|v| { let mut v = v.borrow_mut(); assert!(!v.is_empty(), "REPLAY: counterexample has too few values"); v.remove(0) }) }
    pub fn any<T: Replay>() -> T { T::from_le(&next()) }
    pub fn any_array<T: Replay, const N: usize>() -> [T; N] { std::array::from_fn(|_| any::<T>()) }
    pub fn assume(c: bool) { assert!(c, "REPLAY: counterexample violates an assumption"); }
}
"""


def to_replay_module(module_text, harness, vals):
    """the harness module, compiled as an ordinary #[cfg(test)] module with kani::any() fed from the counterexample"""
    out = []
    for ln in module_text.split("\n"):
        st = ln.strip()
        if re.match(r"#\[kani::[^\]]*\]$", st):
            continue
        if st.startswith("kani::cover!(") and st.endswith(");"):
            continue
        out.append(ln)
    vec = ", ".join("vec![" + ", ".join(str(b) for b in v) + "]" for v in vals)
    test = f"""
#[test]
fn verif_replay_counterexample() {{
    kani::VALS.with(|v| *v.borrow_mut() = vec![{vec}]);
    {harness}();
}}
"""
    return "\n#[cfg(test)]\n#[allow(unused_imports, dead_code, unused_variables, unused_macros, clippy::all)]\nmod verif_kani_replay {\nuse super::*;\n" + REPLAY_SHIM + "\n".join(out) + test + "}\n"


def parse_playback(out, harness):
    """concrete value sets Kani generated for `harness`: tests for failed assertions first, then tests for cover
    properties (Kani emits no test for a failed arithmetic-overflow check; a cover test may still hit it)"""
    tests = re.findall(r"```\n(.*?)```", out, flags=re.S)
    cands = []
    for t in tests:
        if f"kani_concrete_playback_{harness}_" not in t:
            continue
        vals = [[int(x) for x in v.split(",") if x.strip()] for v in re.findall(r"vec!\[([0-9,\s]*)\],", t)]
        comments = [c.strip() for c in re.findall(r"(?m)^\s*//\s+(.+)$", t)]
        is_cover = "Check for `cover`" in t
        cands.append({"byte_vectors": vals, "rendered": comments[:40], "from": "cover" if is_cover else "assertion"})
    cands.sort(key=lambda c: 0 if c["from"] == "assertion" else 1)
    return cands


def playback_and_replay(set_name, harness, timeout=1500):
    """re-run one failed harness with concrete playback, then run the same harness natively on the counterexample"""
    info = {"counterexample": None, "replay": None}
    r = run_set(set_name, [harness], jobs=1, timeout=timeout, playback=True)
    cands = parse_playback(r["full_output"] or r["output_tail"], harness)
    if not cands:
        info["note"] = "Kani produced no concrete values (timeout or unsupported)"
        return info
    for cx in cands[:6]:
        rp = native_replay(set_name, harness, cx["byte_vectors"])
        if rp["reproduced"] or info["replay"] is None:
            info["counterexample"], info["replay"] = cx, rp
        if rp["reproduced"]:
            break
    return info


def native_replay(set_name, harness, byte_vectors):
    """run the harness function natively (cargo test) on concrete values, against /repo's current working tree"""
    cfg = SETS[set_name]()
    mod = to_replay_module(cfg["module"], harness, byte_vectors)
    with scratch.Scratch("kreplay") as sc:
        sc.write(cfg["append_to"], mod, append=True)
        cmd = ["cargo", "test", "--offline", "-p", cfg["package"], "--lib", "--", "verif_replay_counterexample", "--nocapture"]
        try:
            with scratch.cargo_lock("target-replay"):
                p = subprocess.run(cmd, cwd=sc.repo, env=scratch.cargo_env("target-replay"), capture_output=True, text=True, timeout=1500)
            both = p.stdout + p.stderr
            out = p.stdout[-3000:] + "\n--- stderr (tail) ---\n" + p.stderr[-3000:]
            # an ordinary panic fails the test; a violated unsafe precondition (debug build) aborts the process without unwinding
            failed = "verif_replay_counterexample ... FAILED" in both or \
                ("verif_replay_counterexample" in both and "unsafe precondition(s) violated" in both)
            reproduced = p.returncode != 0 and failed and "panicked" in both \
                and "REPLAY:" not in both and "could not compile" not in both
            return {"cmd": " ".join(cmd), "exit": p.returncode, "output": out, "reproduced": reproduced}
        except subprocess.TimeoutExpired:
            return {"cmd": " ".join(cmd), "exit": None, "output": "timeout", "reproduced": False}


def run_for_property(prop, cfg, tier, seed):
    """cfg['kani'] = list of {"set":..., "harnesses":[...], "tier": "quick"|"thorough"}"""
    info = {"undecided": [], "violations": [], "obligations": 0, "discharged": 0, "cmds": [], "bounded": [], "summary": [], "ledger": {}}
    for part in cfg["kani"]:
        if part.get("tier", "quick") == "thorough" and tier != "thorough":
            continue
        r = run_set(part["set"], part.get("harnesses"), timeout=part.get("timeout", 3000))
        info["cmds"].append(r["cmd"])
        if r["compile_error"]:
            info["undecided"].append(f"set {part['set']}: build/tool error: {r['output_tail'][-800:]}")
            continue
        for h in r["requested"]:
            meta = HARNESSES[part["set"]].get(h, {})
            hr = r["results"].get(h)
            oid = f"kani::{part['set']}::{h}"
            if hr is None:
                info["undecided"].append(f"{oid}: harness produced no result")
                continue
            info["obligations"] += 1
            entry = {"harness": oid, "status": hr["status"], "time_s": hr["time_s"], "checks": hr["checks_total"],
                     "complete": meta.get("complete", False), "bound": meta.get("bound"), "note": meta.get("note")}
            info["summary"].append(entry)
            if not meta.get("complete", False):
                info["bounded"].append({"harness": oid, "bound": meta.get("bound"), "status": hr["status"]})
            if hr["status"] == "SUCCESSFUL":
                if hr["covers"] and hr["covers"][0] < hr["covers"][1]:
                    info["undecided"].append(f"{oid}: VACUOUS: a cover property is unreachable ({hr['covers'][0]} of {hr['covers'][1]} satisfied)")
                else:
                    info["discharged"] += 1
                    info["ledger"][oid] = {"checks": hr["checks_total"], "backend": "kani"}
            elif hr["status"] == "FAILED":
                if hr["unwinding_failed"] and all("unwinding" in c for c in hr["failed_checks"]):
                    info["undecided"].append(f"{oid}: unwinding bound too small")
                else:
                    v = {"obligation": oid, "unit": part["set"], "function": h, "message": "; ".join(hr["failed_checks"])[:500],
                         "origin": f"kani/{part['set']}.rs", "verifier_output": hr["tail"], "backend": "kani", "seed": seed}
                    if not os.environ.get("VERIF_NO_PLAYBACK") and len([x for x in info["violations"] if x.get("counterexample")]) < 2:
                        try:
                            pb = playback_and_replay(part["set"], h)
                            v["counterexample"] = pb.get("counterexample")
                            v["counterexample_replay"] = pb.get("replay")
                            v["counterexample_reproduced"] = bool(pb.get("replay") and pb["replay"].get("reproduced"))
                        except Exception as e:  # reporting only
                            v["counterexample_error"] = str(e)
                    info["violations"].append(v)
            else:
                info["undecided"].append(f"{oid}: {hr['status']} ({'timeout' if r['rc'] == 124 else 'no verdict'})")
    return info


if __name__ == "__main__":
    r = run_set(sys.argv[1], sys.argv[2:] or None)
    print(json.dumps({k: v for k, v in r.items() if k not in ("output_tail",)}, indent=1)[:6000])
    if r["compile_error"] or not r["results"]:
        print(r["output_tail"])
