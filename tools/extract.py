#!/usr/bin/env python3
"""extract.py — Rust tokenizer, item finder and template expander.

A *unit* is a template (`units/<name>.rs.tmpl`): ordinary Verus source text in
which `//@take` directives pull items VERBATIM out of /repo's current working
tree.  Contracts, loop invariants and ghost blocks are spliced at stated places
(signature/body boundary, loop headers, before/after an anchored statement).
Nothing executable is inserted, removed or reordered except by an explicit
`//@rewrite` / `//@abstract` directive, every one of which is recorded and
ends up in the evidence file.

Directives (one per line, payload = following lines up to the next `//@`):

  //@take <kind> <repo-relative-file> <name> [ret=<ident>] [exec-const] [as=<newname>] [vis=<text>]
        kind: fn | method | traitfn | const | assoc-const | struct | enum | type | trait-const
        name: `foo`, `Type::foo`, `Trait for Type::foo`, `Trait::foo`
  //@contract            requires/ensures/decreases text, spliced between signature and body
  //@loop <n>            invariant/decreases text, spliced before the body of the n-th loop (1-based)
  //@before <anchor>     ghost text inserted before the unique occurrence of <anchor> in the item
  //@after <anchor>      ghost text inserted after it
  //@rewrite <old> ~~> <new>     executable rewrite (recorded)
  //@abstract <old> ~~> <new>    replace an expression by a call to a contracted external fn (recorded as assumption)
  //@sig <old> ~~> <new>         rewrite inside the signature only (recorded)
  //@const-ensures       (for exec-const) `ensures` text and optional proof payload
  //@end
  //@include <path relative to /verif>      textual include of a spec file

Anything that cannot be found raises ExtractError -> the check exits 2
(undecided), never a VIOLATION.
"""
import os
import re
import sys

REPO = os.environ.get("VERIF_REPO", "/repo")
VERIF = os.path.dirname(os.path.dirname(os.path.abspath(__file__)))


class ExtractError(Exception):
    pass


# ----------------------------------------------------------------------------
# tokenizer
# ----------------------------------------------------------------------------

class Tok:
    __slots__ = ("kind", "s", "e")

    def __init__(self, kind, s, e):
        self.kind, self.s, self.e = kind, s, e


_ident_re = re.compile(r"[A-Za-z_][A-Za-z0-9_]*")
_num_re = re.compile(r"[0-9][0-9a-zA-Z_]*(\.[0-9][0-9a-zA-Z_]*)?")


def tokenize(text):
    toks = []
    i, n = 0, len(text)
    while i < n:
        c = text[i]
        if c.isspace():
            j = i + 1
            while j < n and text[j].isspace():
                j += 1
            toks.append(Tok("ws", i, j))
            i = j
        elif text.startswith("//", i):
            j = text.find("\n", i)
            if j < 0:
                j = n
            toks.append(Tok("lc", i, j))
            i = j
        elif text.startswith("/*", i):
            depth, j = 1, i + 2
            while j < n and depth:
                if text.startswith("/*", j):
                    depth += 1
                    j += 2
                elif text.startswith("*/", j):
                    depth -= 1
                    j += 2
                else:
                    j += 1
            toks.append(Tok("bc", i, j))
            i = j
        elif c == '"' or (c == "b" and text.startswith('b"', i)):
            j = i + (2 if c == "b" else 1)
            while j < n and text[j] != '"':
                j += 2 if text[j] == "\\" else 1
            toks.append(Tok("str", i, j + 1))
            i = j + 1
        elif (c == "r" and re.match(r'r#*"', text[i:i + 8])) or (c == "b" and re.match(r'br#*"', text[i:i + 9])):
            m = re.match(r'b?r(#*)"', text[i:])
            hashes = m.group(1)
            close = '"' + hashes
            j = text.find(close, i + m.end())
            if j < 0:
                raise ExtractError("unterminated raw string")
            toks.append(Tok("str", i, j + len(close)))
            i = j + len(close)
        elif c == "'":
            if i + 1 < n and text[i + 1] == "\\":
                j = text.find("'", i + 3)
                toks.append(Tok("chr", i, j + 1))
                i = j + 1
            elif i + 2 < n and text[i + 2] == "'":
                toks.append(Tok("chr", i, i + 3))
                i += 3
            else:
                m = _ident_re.match(text, i + 1)
                j = m.end() if m else i + 1
                toks.append(Tok("life", i, j))
                i = j
        elif c.isalpha() or c == "_":
            m = _ident_re.match(text, i)
            toks.append(Tok("id", i, m.end()))
            i = m.end()
        elif c.isdigit():
            m = _num_re.match(text, i)
            toks.append(Tok("num", i, m.end()))
            i = m.end()
        else:
            toks.append(Tok("p", i, i + 1))
            i += 1
    return toks


OPEN = {"(": ")", "[": "]", "{": "}"}
CLOSE = {")": "(", "]": "[", "}": "{"}


class Source:
    """A tokenized source text with bracket matching."""

    def __init__(self, text, label="<text>"):
        self.text = text
        self.label = label
        self.toks = tokenize(text)
        self.match = {}
        stack = []
        for idx, t in enumerate(self.toks):
            if t.kind != "p":
                continue
            ch = text[t.s]
            if ch in OPEN:
                stack.append((ch, idx))
            elif ch in CLOSE:
                if not stack or stack[-1][0] != CLOSE[ch]:
                    raise ExtractError(f"{label}: unbalanced '{ch}' at offset {t.s}")
                _, o = stack.pop()
                self.match[o] = idx
                self.match[idx] = o
        if stack:
            raise ExtractError(f"{label}: unclosed '{stack[-1][0]}'")

    def tt(self, i):
        t = self.toks[i]
        return self.text[t.s:t.e]

    def is_p(self, i, ch):
        t = self.toks[i]
        return t.kind == "p" and self.text[t.s] == ch

    def sig(self, i, hi=None):
        """index of next significant (non ws/comment) token at or after i"""
        hi = len(self.toks) if hi is None else hi
        while i < hi and self.toks[i].kind in ("ws", "lc", "bc"):
            i += 1
        return i

    def line_of(self, off):
        return self.text.count("\n", 0, off) + 1


class Item:
    def __init__(self, kind, name, src, first, kw, last, body_open=None, header="", attrs_end=None):
        self.kind, self.name, self.src = kind, name, src
        self.first, self.kw, self.last = first, kw, last  # token indices (first incl. attrs/docs)
        self.body_open = body_open
        self.header = header
        self.core = attrs_end if attrs_end is not None else first  # first token after attributes/docs
        self.children = []

    @property
    def start(self):
        return self.src.toks[self.core].s

    @property
    def end(self):
        return self.src.toks[self.last].e

    def text(self):
        return self.src.text[self.start:self.end]


ITEM_KW = {"fn", "const", "static", "struct", "enum", "union", "trait", "impl", "mod", "type", "use", "macro_rules", "extern"}
QUALS = {"pub", "const", "unsafe", "async", "default", "extern"}


def parse_items(src, lo, hi):
    """Parse the items between token indices [lo, hi)."""
    items = []
    i = src.sig(lo, hi)
    while i < hi:
        first = i
        # attributes and doc comments (doc comments are comments -> already skipped by sig, but
        # they sit between `first` candidates; we treat them as dropped)
        while i < hi and src.is_p(i, "#"):
            j = src.sig(i + 1, hi)
            if src.is_p(j, "!"):
                j = src.sig(j + 1, hi)
            if not src.is_p(j, "["):
                raise ExtractError(f"{src.label}: stray '#' at line {src.line_of(src.toks[i].s)}")
            i = src.sig(src.match[j] + 1, hi)
        core = i
        if i >= hi:
            break
        # visibility / qualifiers
        kw = None
        j = i
        while j < hi:
            t = src.toks[j]
            if t.kind == "id":
                w = src.tt(j)
                if w == "pub":
                    j = src.sig(j + 1, hi)
                    if src.is_p(j, "("):
                        j = src.sig(src.match[j] + 1, hi)
                    continue
                if w in ("unsafe", "async", "default", "open", "closed", "spec", "proof", "exec", "uninterp", "broadcast"):
                    j = src.sig(j + 1, hi)
                    continue
                if w == "extern":
                    k = src.sig(j + 1, hi)
                    if src.toks[k].kind == "str":
                        k = src.sig(k + 1, hi)
                    if src.toks[k].kind == "id" and src.tt(k) == "crate":
                        kw = j
                        break
                    j = k
                    continue
                if w == "const":
                    k = src.sig(j + 1, hi)
                    if src.toks[k].kind == "id" and src.tt(k) in ("fn", "unsafe", "async", "extern"):
                        j = k
                        continue
                    kw = j
                    break
                kw = j
                break
            else:
                raise ExtractError(f"{src.label}: cannot parse item at line {src.line_of(t.s)}: {src.text[t.s:t.s+40]!r}")
        if kw is None:
            break
        word = src.tt(kw)
        nxt = src.sig(kw + 1, hi)
        # find the end
        body_open = None
        if word in ("const", "static", "type", "use", "extern"):
            k = nxt
            while k < hi and not src.is_p(k, ";"):
                if src.toks[k].kind == "p" and src.text[src.toks[k].s] in OPEN:
                    k = src.match[k]
                k += 1
            last = k
        else:
            k = nxt
            while k < hi:
                if src.is_p(k, ";"):
                    break
                if src.is_p(k, "{"):
                    body_open = k
                    k = src.match[k]
                    break
                if src.toks[k].kind == "p" and src.text[src.toks[k].s] in "([":
                    k = src.match[k]
                k += 1
            last = k
            # tuple struct `struct A(..);` / macro invocation `foo! { }` handled by the rules above
        if last >= hi:
            raise ExtractError(f"{src.label}: unterminated item at line {src.line_of(src.toks[kw].s)}")
        if word in ITEM_KW:
            kind = word
            if word == "impl" or word == "trait":
                header = " ".join(src.text[src.toks[kw].s:src.toks[body_open].s].split()) if body_open else ""
                name = header
            elif word == "use" or word == "extern":
                name = ""
                header = ""
            else:
                name = src.tt(nxt)
                header = ""
        else:
            # macro invocation (ident ! ...)
            kind = "macro"
            name = word
            header = ""
        it = Item(kind, name, src, first, kw, last, body_open, header, attrs_end=core)
        if kind in ("impl", "trait", "mod") and body_open is not None:
            it.children = parse_items(src, body_open + 1, src.match[body_open])
        items.append(it)
        i = src.sig(last + 1, hi)
    return items


_src_cache = {}


def load(relpath):
    # `verif:<path>` names a file of the framework itself (e.g. the executable oracle in kani/tables.rs)
    path = os.path.join(VERIF, relpath[len("verif:"):]) if relpath.startswith("verif:") else os.path.join(REPO, relpath)
    if path not in _src_cache:
        try:
            text = open(path, encoding="utf-8").read()
        except OSError as e:
            raise ExtractError(f"cannot read {path}: {e}")
        src = Source(text, relpath)
        src.items = parse_items(src, 0, len(src.toks))
        _src_cache[path] = src
    return _src_cache[path]


def impl_self_type(header):
    """`impl<V> HashTable<ZobristHash, V>` -> (None, 'HashTable'); `impl A for B` -> ('A','B')"""
    h = header[len("impl"):].strip()
    if h.startswith("<"):
        depth = 0
        for idx, ch in enumerate(h):
            if ch == "<":
                depth += 1
            elif ch == ">":
                depth -= 1
                if depth == 0:
                    h = h[idx + 1:].strip()
                    break
    trait = None
    m = re.match(r"(.*?)\s+for\s+(.*)$", h)
    if m:
        trait, h = m.group(1).strip(), m.group(2).strip()
        trait = re.split(r"[<\s]", trait)[0].split("::")[-1]
    h = h.lstrip("&").strip()
    ty = re.split(r"[<\s{]", h)[0].split("::")[-1]
    return trait, ty


def find_item(relpath, kind, name):
    src = load(relpath)
    cands = []
    if kind in ("fn", "const", "struct", "enum", "type", "static", "trait"):
        for it in src.items:
            if it.kind == kind and (it.name == name or (kind == "trait" and it.name.split()[1].split("<")[0].rstrip(":") == name)):
                cands.append(it)
    elif kind in ("method", "assoc-const"):
        want_kind = "fn" if kind == "method" else "const"
        m = re.match(r"(?:(\w+)\s+for\s+)?(\w+)::(\w+)$", name)
        if not m:
            raise ExtractError(f"bad method name {name!r}")
        wtrait, wty, wname = m.groups()
        for it in src.items:
            if it.kind != "impl":
                continue
            tr, ty = impl_self_type(it.header)
            if ty != wty or (wtrait is not None and tr != wtrait):
                continue
            for ch in it.children:
                if ch.kind == want_kind and ch.name == wname:
                    cands.append(ch)
    elif kind in ("traitfn", "trait-const"):
        want_kind = "fn" if kind == "traitfn" else "const"
        wtr, wname = name.split("::")
        for it in src.items:
            if it.kind == "trait" and re.match(r"trait\s+" + re.escape(wtr) + r"\b", it.header):
                for ch in it.children:
                    if ch.kind == want_kind and ch.name == wname:
                        cands.append(ch)
    else:
        raise ExtractError(f"unknown item kind {kind!r}")
    if len(cands) != 1:
        raise ExtractError(f"{relpath}: expected exactly one {kind} {name!r}, found {len(cands)}")
    return cands[0]


# ----------------------------------------------------------------------------
# edits on an item's text with origin tracking
# ----------------------------------------------------------------------------

class Chunk:
    __slots__ = ("text", "origin")

    def __init__(self, text, origin):
        self.text, self.origin = text, origin  # origin: ("repo", file, line) | ("tmpl", unit, line)


class Edited:
    """text of one item + list of edits (pos, del_len, ins_text, origin)"""

    def __init__(self, item):
        self.item = item
        self.base = item.start
        self.text = item.text()
        self.edits = []

    def find_unique(self, anchor, what, lo=0, hi=None):
        hi = len(self.text) if hi is None else hi
        idx = self.text.find(anchor, lo, hi)
        if idx < 0:
            raise ExtractError(f"{self.item.src.label}:{self.item.name}: {what} anchor not found: {anchor!r}")
        if self.text.find(anchor, idx + 1, hi) >= 0:
            raise ExtractError(f"{self.item.src.label}:{self.item.name}: {what} anchor not unique: {anchor!r}")
        return idx

    def find_nth(self, anchor, what, nth, lo=0):
        idx = lo - 1
        for _ in range(nth):
            idx = self.text.find(anchor, idx + 1)
            if idx < 0:
                raise ExtractError(f"{self.item.src.label}:{self.item.name}: {what} anchor occurrence #{nth} not found: {anchor!r}")
        return idx

    def insert(self, pos, text, origin):
        self.edits.append((pos, 0, text, origin))

    def replace(self, pos, ln, text, origin):
        self.edits.append((pos, ln, text, origin))

    def chunks(self):
        src = self.item.src
        out = []
        cur = 0
        for pos, ln, text, origin in sorted(self.edits, key=lambda e: (e[0], 0 if e[1] == 0 else 1)):
            if pos < cur:
                raise ExtractError(f"{src.label}:{self.item.name}: overlapping edits")
            if pos > cur:
                out.append(Chunk(self.text[cur:pos], ("repo", src.label, src.line_of(self.base + cur))))
            out.append(Chunk(text, origin))
            cur = pos + ln
        if cur < len(self.text):
            out.append(Chunk(self.text[cur:], ("repo", src.label, src.line_of(self.base + cur))))
        return out


ATTR_RE = re.compile(r"#\[(?:inline|allow|derive|non_exhaustive|must_use|cfg_attr|doc)\b[^\]]*\]\s*")


class Expander:
    def __init__(self, unit_name, tmpl_text):
        self.unit = unit_name
        self.tmpl = tmpl_text
        self.out = []  # list of (line_text, origin)
        self.records = {"takes": [], "rewrites": [], "abstractions": [], "sig_rewrites": [], "dropped_attrs": 0,
                        "exec_consts": [], "files": set(), "slices": []}

    # -- output helpers ------------------------------------------------------
    def emit_chunks(self, chunks):
        # split chunks into lines; a line's origin is the origin of the chunk holding its first non-blank char
        cur_text, cur_origin = "", None
        for ch in chunks:
            parts = ch.text.split("\n")
            kind = ch.origin[0]
            line0 = ch.origin[2]
            for k, part in enumerate(parts):
                if k > 0:
                    self.out.append((cur_text, cur_origin or (kind, ch.origin[1], line0 + k - 1)))
                    cur_text, cur_origin = "", None
                if part.strip() and cur_origin is None:
                    cur_origin = (kind, ch.origin[1], line0 + (k if kind == "repo" else k))
                cur_text += part
        self.out.append((cur_text, cur_origin or ("tmpl", self.unit, 0)))

    # -- directive processing --------------------------------------------------
    def expand(self):
        lines = self.tmpl.split("\n")
        i = 0
        while i < len(lines):
            ln = lines[i]
            s = ln.strip()
            if s.startswith("//@include "):
                path = os.path.join(VERIF, s.split(None, 1)[1].strip())
                try:
                    inc = open(path).read()
                except OSError as e:
                    raise ExtractError(f"include {path}: {e}")
                sub = Expander(os.path.relpath(path, VERIF), inc)
                sub.records = self.records
                sub.expand()
                self.out.extend(sub.out)
                i += 1
            elif s.startswith("//@slice "):
                self.do_slice(i + 1, s)
                i += 1
            elif s.startswith("//@fragment "):
                j = i + 1
                block = []
                while j < len(lines) and lines[j].strip() != "//@end":
                    block.append((j + 1, lines[j].strip()))
                    j += 1
                if j >= len(lines):
                    raise ExtractError(f"{self.unit}:{i+1}: //@fragment without //@end")
                self.do_fragment(i + 1, s, block)
                i = j + 1
            elif s.startswith("//@take-all "):
                self.do_take_all(i + 1, s)
                i += 1
            elif s.startswith("//@take "):
                j = i + 1
                block = []
                while j < len(lines) and lines[j].strip() != "//@end":
                    block.append((j + 1, lines[j]))
                    j += 1
                if j >= len(lines):
                    raise ExtractError(f"{self.unit}:{i+1}: //@take without //@end")
                self.do_take(i + 1, s, block)
                i = j + 1
            elif s.startswith("//@"):
                raise ExtractError(f"{self.unit}:{i+1}: stray directive {s!r}")
            else:
                self.out.append((ln, ("tmpl", self.unit, i + 1)))
                i += 1
        return self

    def do_slice(self, lineno, head):
        # //@slice <file> <ImplType> <board.path> <StructName> <fn> [<fn> ...]
        import skeleton
        parts = head.split()
        if len(parts) < 6:
            raise ExtractError(f"{self.unit}:{lineno}: malformed slice directive")
        relpath, impl_type, board_path, struct_name, names = parts[1], parts[2], parts[3], parts[4], parts[5:]
        sl = skeleton.Slicer(relpath, impl_type, names, board_path)
        lines = skeleton.render(sl, names, struct_name)
        self.records["files"].add(relpath)
        for text, o in lines:
            self.out.append((text, ("repo", relpath, o) if o else ("tmpl", self.unit, lineno)))
        notes = {k: (sorted(v) if isinstance(v, set) else v) for k, v in sl.notes.items()}
        self.records.setdefault("slices", []).append({"file": relpath, "impl": impl_type, "board": board_path, "functions": notes["functions"],
                                                      "dropped_self_methods_checked_clean": notes["dropped_calls_checked"],
                                                      "readonly_board_calls": notes["readonly_board_calls"],
                                                      "havoc_bindings": notes["havoc_bindings"]})
        for d in notes.get("degraded", []):
            self.records.setdefault("degraded", []).append(f"{relpath}: {d}")
        self.records["abstractions"].append(f"{relpath}: {impl_type}::{{{', '.join(names)}}} verified as a mechanical control-flow/board-mutation slice (conditions nondeterministic, move variables assumed to be generated moves of the current position)")

    def do_fragment(self, lineno, head, block):
        """//@fragment <file> <Impl::fn>  +  //@from-re <regex>  +  //@through-block-re <regex>  [+ //@rewrite a ~~> b]
        Emits, VERBATIM, the run of statements of the function body that starts at the line of the (unique) from-match and
        ends with the closing brace of the first `{..}` block that follows the (unique) through-match.  What surrounds the
        run (signature, the receiver struct) is written in the template; the statements themselves are the repository's."""
        parts = head.split()
        if len(parts) != 3:
            raise ExtractError(f"{self.unit}:{lineno}: malformed fragment directive")
        relpath, name = parts[1], parts[2]
        item = find_item(relpath, "method", name)
        src = item.src
        self.records["files"].add(relpath)
        if item.body_open is None:
            raise ExtractError(f"{self.unit}:{lineno}: fragment of bodiless {name}")
        b_s, b_e = src.toks[item.body_open].e, src.toks[src.match[item.body_open]].s
        body = src.text[b_s:b_e]
        frm = thr = None
        thr_stmt = False
        from_start = False
        rewrites = []
        inserts = []   # (anchor, [payload lines], d_line)
        for d_line, d in block:
            if inserts and not d.startswith("//@"):
                inserts[-1][1].append(d)
                continue
            if d.startswith("//@before ") or d.startswith("//@after ") or d.startswith("//@loop-inv "):
                inserts.append((d.split(None, 1)[1], [], d_line, d.split(None, 1)[0][3:]))
            elif d.startswith("//@from-re "):
                frm = d.split(None, 1)[1]
            elif d.startswith("//@through-block-re "):
                thr = d.split(None, 1)[1]
            elif d == "//@from-start":
                from_start = True
            elif d.startswith("//@through-stmt-re "):
                thr = d.split(None, 1)[1]
                thr_stmt = True
            elif d.startswith("//@rewrite "):
                a, b = [x.strip() for x in d.split(None, 1)[1].split("~~>", 1)]
                rewrites.append((a, b, d_line))
            elif d:
                raise ExtractError(f"{self.unit}:{d_line}: unknown fragment directive {d!r}")
        if frm is None or thr is None:
            raise ExtractError(f"{self.unit}:{lineno}: fragment needs from-re and through-block-re")
        ms = list(re.finditer(frm, body))
        if len(ms) != 1:
            raise ExtractError(f"{src.label}:{name}: fragment start anchor matches {len(ms)} times: {frm!r}")
        start = body.rfind("\n", 0, ms[0].start()) + 1
        if from_start:
            # the run must begin with the function's first statement: nothing but blank lines and comments before it
            lead = re.sub(r"//[^\n]*", "", body[:start])
            lead = re.sub(r"/\*.*?\*/", "", lead, flags=re.S)
            if lead.strip():
                raise ExtractError(f"{src.label}:{name}: fragment start anchor is no longer the first statement of the function (code precedes it): {frm!r}")
        ms = list(re.finditer(thr, body))
        if len(ms) != 1:
            raise ExtractError(f"{src.label}:{name}: fragment end anchor matches {len(ms)} times: {thr!r}")
        if ms[0].start() < start:
            raise ExtractError(f"{src.label}:{name}: fragment end anchor precedes its start anchor")
        k = item.body_open + 1
        if thr_stmt:
            # the `;` that ends the statement containing the through-match (groups skipped)
            while k < len(src.toks) and src.toks[k].e <= b_s + ms[0].start():
                k += 1
            while k < src.match[item.body_open] and not src.is_p(k, ";"):
                if src.toks[k].kind == "p" and src.text[src.toks[k].s] in "([{":
                    k = src.match[k]
                k += 1
            if k >= src.match[item.body_open]:
                raise ExtractError(f"{src.label}:{name}: no `;` after fragment end anchor")
            end = src.toks[k].e - b_s
        else:
            # first `{` token after the through-match, at any depth, and its partner
            while k < len(src.toks) and not (src.toks[k].s >= b_s + ms[0].end() and src.is_p(k, "{")):
                k += 1
            if k >= src.match[item.body_open]:
                raise ExtractError(f"{src.label}:{name}: no block after fragment end anchor")
            end = src.toks[src.match[k]].e - b_s
        text = body[start:end]
        first_line = src.line_of(b_s + start)
        for a, b, d_line in rewrites:
            if text.count(a) != 1:
                raise ExtractError(f"{src.label}:{name}: fragment rewrite anchor occurs {text.count(a)} times: {a!r}")
            text = text.replace(a, b)
            self.records["rewrites"].append(f"{relpath}:{name} (fragment): `{a}` -> `{b}`")
        out_lines = [(ln, ("repo", src.label, first_line + k2)) for k2, ln in enumerate(text.split("\n"))]
        for anchor, payload, d_line, how in inserts:
            hits = [k2 for k2, (ln, _) in enumerate(out_lines) if anchor in ln and _[0] == "repo"]
            if len(hits) != 1:
                raise ExtractError(f"{src.label}:{name}: fragment proof anchor occurs {len(hits)} times: {anchor!r}")
            pl_lines = [(pl, ("tmpl", self.unit, d_line + 1 + k3)) for k3, pl in enumerate(payload)]
            h = hits[0]
            if how == "before":
                out_lines[h:h] = pl_lines
            elif how == "after":
                out_lines[h + 1:h + 1] = pl_lines
            else:   # loop-inv: the anchor line is a loop header ending in `{`; the payload goes between header and brace
                ln, org = out_lines[h]
                if not ln.rstrip().endswith("{"):
                    raise ExtractError(f"{src.label}:{name}: fragment loop anchor line does not end in `{{`: {ln.strip()!r}")
                out_lines[h:h + 1] = [(ln.rstrip()[:-1], org)] + pl_lines + [("{", org)]
        self.out.extend(out_lines)
        self.records["takes"].append({"kind": "fragment", "file": relpath, "name": name, "lines": [first_line, first_line + text.count("\n")]})
        self.records["abstractions"].append(f"{relpath}:{name}: only the statement run lines {first_line}-{first_line + text.count(chr(10))} is verified (verbatim), inside a receiver written in the unit template; the rest of the function is outside this unit")

    def do_take_all(self, lineno, head):
        parts = head.split(None, 3)
        if len(parts) != 4:
            raise ExtractError(f"{self.unit}:{lineno}: malformed take-all")
        kind, relpath, rx = parts[1], parts[2], re.compile(parts[3].strip())
        src = load(relpath)
        self.records["files"].add(relpath)
        n = 0
        for it in src.items:
            if it.kind == kind and rx.search(it.name):
                ed = Edited(it)
                for m in ATTR_RE.finditer(ed.text):
                    ed.replace(m.start(), m.end() - m.start(), "", ("tmpl", self.unit, lineno))
                self.emit_chunks(ed.chunks())
                n += 1
        if n == 0:
            raise ExtractError(f"{self.unit}:{lineno}: take-all matched nothing in {relpath}")
        self.records["takes"].append({"kind": kind + "*", "file": relpath, "name": parts[3].strip(), "count": n})

    def do_take(self, lineno, head, block):
        parts = head.split()
        if len(parts) < 4:
            raise ExtractError(f"{self.unit}:{lineno}: malformed take")
        kind, relpath = parts[1], parts[2]
        rest = parts[3:]
        # name may contain spaces ("Trait for Type::f"): options contain '=' or are known flags
        opts = {}
        name_parts = []
        for p in rest:
            if "=" in p and not name_parts == [] and re.match(r"^(ret|as|vis|derive)=", p):
                k, v = p.split("=", 1)
                opts[k] = v
            elif p in ("exec-const", "keep-attrs", "external-body", "no-body"):
                opts[p] = True
            else:
                name_parts.append(p)
        name = " ".join(name_parts)
        item = find_item(relpath, kind, name)
        self.records["files"].add(relpath)
        ed = Edited(item)
        src = item.src
        # group payloads
        directives = []
        cur = None
        for (ln_no, ln) in block:
            s = ln.strip()
            if s.startswith("//@"):
                cur = [s, ln_no, []]
                directives.append(cur)
            elif cur is not None:
                cur[2].append(ln)
            elif s:
                raise ExtractError(f"{self.unit}:{ln_no}: text before first sub-directive in take block")
        is_fn = item.kind == "fn"
        body_rel = None
        if is_fn and item.body_open is not None:
            body_rel = src.toks[item.body_open].s - ed.base
        sig_end = body_rel if body_rel is not None else len(ed.text)

        # 1. drop attributes inside the item text (outer ones are already excluded by Item.start)
        for m in ATTR_RE.finditer(ed.text):
            if "external-body" in opts and body_rel is not None and m.start() >= body_rel:
                continue
            ed.replace(m.start(), m.end() - m.start(), "", ("tmpl", self.unit, lineno))
            self.records["dropped_attrs"] += 1
        # 2. ret=name : `-> T` => `-> (name: T)`
        if "ret" in opts:
            if not is_fn:
                raise ExtractError(f"{self.unit}:{lineno}: ret= on non-fn")
            arrow = self._find_arrow(item)
            if arrow is None:
                raise ExtractError(f"{self.unit}:{lineno}: ret= but {name} has no return type")
            a_s, a_e = arrow  # offsets (relative) of the type text
            ed.insert(a_s, f"({opts['ret']}: ", ("tmpl", self.unit, lineno))
            ed.insert(a_e, ")", ("tmpl", self.unit, lineno))
        if "derive" in opts:
            # re-emit a subset of the item's own #[derive(..)] list (the rest is dropped, rule 1)
            outer = src.text[src.toks[item.first].s:item.start]
            m = re.search(r"#\[derive\(([^)]*)\)\]", outer)
            have = [x.strip() for x in m.group(1).split(",")] if m else []
            want = [x.strip() for x in opts["derive"].split(",")]
            for w in want:
                if w not in have:
                    raise ExtractError(f"{self.unit}:{lineno}: {name} does not derive {w} in {relpath}")
            ed.insert(0, f"#[derive({', '.join(want)})]\n", ("tmpl", self.unit, lineno))
        if "as" in opts:
            nt = src.sig(item.kw + 1)
            # for fn/const/struct the name token follows the keyword
            ed.replace(src.toks[nt].s - ed.base, src.toks[nt].e - src.toks[nt].s, opts["as"], ("tmpl", self.unit, lineno))
            self.records["sig_rewrites"].append(f"{relpath}:{name}: renamed to {opts['as']}")
        if "exec-const" in opts:
            self._exec_const(item, ed, directives, lineno, relpath, name)
        if "external-body" in opts:
            # signature + contract only: the body is verified (against the same contract file) in another unit or back end
            if item.body_open is None:
                raise ExtractError(f"{self.unit}:{lineno}: external-body on item without body")
            ed.insert(0, "#[verifier::external_body] ", ("tmpl", self.unit, lineno))
            b_s = src.toks[item.body_open].s - ed.base
            b_e = src.toks[src.match[item.body_open]].e - ed.base
            ed.replace(b_s, b_e - b_s, "{ unimplemented!() }", ("tmpl", self.unit, lineno))
            self.records["abstractions"].append(f"{relpath}:{name}: signature and contract only (assumed here; body verified elsewhere or trusted)")
        loops = self._loops(item) if is_fn and item.body_open is not None else []
        for d, d_line, payload in directives:
            try:
                text = "\n".join(payload)
                origin = ("tmpl", self.unit, d_line)
                if d.startswith("//@contract-from "):
                    cpath = os.path.join(VERIF, d.split(None, 1)[1].strip())
                    try:
                        text = open(cpath).read().rstrip("\n")
                    except OSError as e:
                        raise ExtractError(f"{self.unit}:{d_line}: contract file: {e}")
                    origin = ("tmpl", os.path.relpath(cpath, VERIF), 1)
                    if body_rel is None:
                        raise ExtractError(f"{self.unit}:{d_line}: contract on item without body")
                    ed.insert(body_rel, "\n" + text + "\n", origin)
                elif d == "//@contract":
                    if body_rel is None:
                        if is_fn and src.is_p(item.last, ";"):
                            ed.insert(src.toks[item.last].s - ed.base, "\n" + text + "\n", origin)  # bodiless trait fn
                        else:
                            raise ExtractError(f"{self.unit}:{d_line}: contract on item without body")
                    else:
                        ed.insert(body_rel, "\n" + text + "\n", origin)
                elif d.startswith("//@loop-end "):
                    n = int(d.split()[1])
                    if n < 1 or n > len(loops):
                        raise ExtractError(f"{self.unit}:{d_line}: {relpath}:{name} has {len(loops)} loops, wanted #{n}")
                    # closing brace of the n-th loop body
                    open_off = loops[n - 1] + ed.base
                    k = 0
                    while src.toks[k].s != open_off:
                        k += 1
                    ed.insert(src.toks[src.match[k]].s - ed.base, "\n" + text + "\n", origin)
                elif d.startswith("//@loop "):
                    n = int(d.split()[1])
                    if n < 1 or n > len(loops):
                        raise ExtractError(f"{self.unit}:{d_line}: {relpath}:{name} has {len(loops)} loops, wanted #{n}")
                    ed.insert(loops[n - 1], "\n" + text + "\n", origin)
                elif d == "//@at-end":
                    if item.body_open is None:
                        raise ExtractError(f"{self.unit}:{d_line}: at-end on item without body")
                    ed.insert(src.toks[src.match[item.body_open]].s - ed.base, "\n" + text + "\n", origin)
                elif d == "//@at-start":
                    if item.body_open is None:
                        raise ExtractError(f"{self.unit}:{d_line}: at-start on item without body")
                    ed.insert(src.toks[item.body_open].e - ed.base, "\n" + text + "\n", origin)
                elif re.match(r"//@(before|after)-re(#\d+)? ", d):
                    which, rx = d.split(None, 1)
                    lo = body_rel if body_rel is not None else 0
                    nth = 1
                    if "#" in which:
                        which, n = which.split("#")
                        nth = int(n)
                    ms = list(re.finditer(rx.strip(), ed.text[lo:], flags=re.S))
                    if "#" not in d.split(None, 1)[0] and len(ms) != 1:
                        raise ExtractError(f"{src.label}:{item.name}: {which} regex anchor matches {len(ms)} times: {rx.strip()!r}")
                    if len(ms) < nth:
                        raise ExtractError(f"{src.label}:{item.name}: {which} regex anchor occurrence #{nth} not found: {rx.strip()!r}")
                    m = ms[nth - 1]
                    pos = lo + (m.end() if which.startswith("//@after") else m.start())
                    ed.insert(pos, "\n" + text + "\n", origin)
                elif re.match(r"//@(before|after)(#\d+)? ", d):
                    which, anchor = d.split(None, 1)
                    anchor = anchor.strip()
                    lo = body_rel if body_rel is not None else 0
                    if "#" in which:
                        which, nth = which.split("#")
                        pos = ed.find_nth(anchor, which, int(nth), lo)
                    else:
                        pos = ed.find_unique(anchor, which, lo)
                    if which == "//@after":
                        pos += len(anchor)
                    ed.insert(pos, "\n" + text + "\n", origin)
                elif d.startswith("//@rewrite-re ") or d.startswith("//@abstract-re "):
                    which, spec = d.split(None, 1)
                    if "~~>" not in spec:
                        raise ExtractError(f"{self.unit}:{d_line}: rewrite needs `regex ~~> new`")
                    rx, new = [x.strip() for x in spec.split("~~>", 1)]
                    lo = sig_end if body_rel is not None else 0
                    ms = list(re.finditer(rx, ed.text[lo:], flags=re.S))
                    if len(ms) != 1:
                        raise ExtractError(f"{src.label}:{item.name}: {which} regex anchor matches {len(ms)} times: {rx!r}")
                    m0 = ms[0]
                    old_text = " ".join(m0.group(0).split())
                    key = "rewrites" if which == "//@rewrite-re" else "abstractions"
                    self.records[key].append(f"{relpath}:{name}: `{old_text}` -> `{new}`")
                    ed.replace(lo + m0.start(), m0.end() - m0.start(), new, ("repo", src.label, src.line_of(ed.base + lo + m0.start())))
                elif d.startswith("//@rewrite ") or d.startswith("//@abstract ") or d.startswith("//@sig "):
                    which, spec = d.split(None, 1)
                    if "~~>" not in spec:
                        raise ExtractError(f"{self.unit}:{d_line}: rewrite needs `old ~~> new`")
                    old, new = [x.strip() for x in spec.split("~~>", 1)]
                    if which == "//@sig":
                        pos = ed.find_unique(old, which, 0, sig_end)
                        self.records["sig_rewrites"].append(f"{relpath}:{name}: `{old}` -> `{new}`")
                    else:
                        pos = ed.find_unique(old, which, sig_end if body_rel is not None else 0)
                        key = "rewrites" if which == "//@rewrite" else "abstractions"
                        self.records[key].append(f"{relpath}:{name}: `{old}` -> `{new}`")
                    ed.replace(pos, len(old), new, ("repo", src.label, src.line_of(ed.base + pos)))
                elif d.startswith("//@const-ensures"):
                    pass  # handled by _exec_const
                else:
                    raise ExtractError(f"{self.unit}:{d_line}: unknown sub-directive {d!r}")
            except ExtractError as ex:
                # a lost body anchor (proof hint, loop invariant, rewrite) does not stop the run: the item is verified without it and
                # the unit is marked DEGRADED (a failing obligation then needs a failing input on the real code to count)
                if re.match(r"//@(before|after|loop|loop-end|rewrite|abstract|rewrite-re|abstract-re|at-start|at-end)\b", d) and "anchor" in str(ex) or "loops, wanted" in str(ex):
                    self.records.setdefault("degraded", []).append(f"{relpath}:{name}: directive `{d[:80]}` not applied ({ex})")
                else:
                    raise
        self.records["takes"].append({"kind": kind, "file": relpath, "name": name, "external": "external-body" in opts,
                                      "lines": [src.line_of(item.start), src.line_of(item.end)]})
        if kind == "method" and item.body_open is not None and "external-body" not in opts and "::" in name and " for " not in name:
            body = "".join(c.text for c in ed.chunks() if c.origin[0] == "repo")   # the repository's text after the recorded rewrites
            calls = set(re.findall(r"(?:\bself\s*\.\s*|\bSelf\s*::\s*)([a-z_][a-z_0-9]*)\s*\(", body))
            self.records.setdefault("_method_calls", []).append((relpath, name.split("::")[0], sorted(calls)))
        self.emit_chunks(ed.chunks())

    def _exec_const(self, item, ed, directives, lineno, relpath, name):
        # `pub const X: T = expr;`  =>  `pub exec const X: T ensures <..> { proof{..} expr }`
        src = item.src
        ed.insert(src.toks[item.kw].s - ed.base, "exec ", ("tmpl", self.unit, lineno))
        # find '=' at depth 0 after the ':'
        k = item.kw + 1
        eq = None
        while k < item.last:
            if src.toks[k].kind == "p" and src.text[src.toks[k].s] in OPEN:
                k = src.match[k]
            elif src.is_p(k, "="):
                eq = k
                break
            k += 1
        if eq is None:
            raise ExtractError(f"{relpath}:{name}: exec-const without initializer")
        ens, proof = "", ""
        for d, d_line, payload in directives:
            if d.startswith("//@const-ensures"):
                ens = d[len("//@const-ensures"):].strip()
                proof = "\n".join(payload)
        o = ("tmpl", self.unit, lineno)
        head = (f" ensures {ens} " if ens else " ") + "{ " + (f"proof {{ {proof} }} " if proof.strip() else "")
        ed.replace(src.toks[eq].s - ed.base, 1, head, o)
        ed.replace(src.toks[item.last].s - ed.base, 1, " }", o)
        self.records["exec_consts"].append(f"{relpath}:{name}")

    def _find_arrow(self, item):
        src = item.src
        k = item.kw
        end = item.body_open if item.body_open is not None else item.last
        # skip to parameter list
        while k < end and not src.is_p(k, "("):
            if src.is_p(k, "<"):
                pass
            k += 1
        if k >= end:
            return None
        k = src.match[k] + 1
        k = src.sig(k, end)
        if k + 1 < end and src.is_p(k, "-") and src.is_p(k + 1, ">"):
            ts = src.sig(k + 2, end)
            # type runs to `where` or body
            te = ts
            j = ts
            while j < end:
                if src.toks[j].kind == "id" and src.tt(j) == "where":
                    break
                if src.toks[j].kind not in ("ws", "lc", "bc"):
                    te = j
                if src.toks[j].kind == "p" and src.text[src.toks[j].s] in "([":
                    j = src.match[j]
                    te = j
                j += 1
            return (src.toks[ts].s - item.start, src.toks[te].e - item.start)
        return None

    def _loops(self, item):
        """relative offsets of the body-open brace of every loop in document order"""
        src = item.src
        res = []
        k = item.body_open + 1
        end = src.match[item.body_open]
        while k < end:
            t = src.toks[k]
            if t.kind == "id" and src.tt(k) in ("while", "for", "loop"):
                # `for` in `for<'a>` HRTB / impl-for cannot occur inside bodies we take
                j = k + 1
                while j < end and not src.is_p(j, "{"):
                    if src.toks[j].kind == "p" and src.text[src.toks[j].s] in "([":
                        j = src.match[j]
                    j += 1
                res.append(src.toks[j].s - item.start)
            k += 1
        return res

    def auto_stub_helpers(self):
        """Methods of the same impl that a taken method calls but that the unit does not contain (a helper introduced by
        a change): emitted as signature-only stubs WITHOUT a contract — any result, any final state of a `&mut self`
        receiver.  That over-approximates the helper, so the unit is marked DEGRADED."""
        text = "\n".join(l for l, _ in self.out)
        defined = set(re.findall(r"\bfn\s+([A-Za-z_][A-Za-z_0-9]*)", text))
        stubs = {}   # impl header -> [lines]
        done = set()
        for relpath, tname, calls in self.records.get("_method_calls", []):
            src = load(relpath)
            for it in src.items:
                if it.kind != "impl" or impl_self_type(it.header)[0] is not None or impl_self_type(it.header)[1] != tname:
                    continue
                for ch in it.children:
                    if ch.kind == "fn" and ch.name in calls and ch.name not in defined and (tname, ch.name) not in done and ch.body_open is not None:
                        done.add((tname, ch.name))
                        sig = src.text[src.toks[ch.core].s:src.toks[ch.body_open].s].strip()
                        hdr = " ".join(it.header.split())
                        stubs.setdefault(hdr, []).append((f"    #[verifier::external_body] {sig} {{ unimplemented!() }}", relpath, src.line_of(ch.start)))
                        self.records.setdefault("degraded", []).append(f"{relpath}: {tname}::{ch.name} is called by code under contract but has no contract in this unit (new helper?): modelled as returning anything / changing its `&mut` receiver arbitrarily")
        if not stubs:
            return
        # insert before the closing brace of the verus! block (the last `}` line before `fn main`)
        idx = max(i for i, (l, _) in enumerate(self.out) if l.strip().startswith("fn main"))
        j = idx - 1
        while j >= 0 and self.out[j][0].strip() != "}":
            j -= 1
        ins = []
        for hdr, ls in stubs.items():
            ins.append((hdr + " {", ("tmpl", self.unit, 0)))
            for l, rp, ln in ls:
                ins.append((l, ("repo", rp, ln)))
            ins.append(("}", ("tmpl", self.unit, 0)))
        self.out[j:j] = ins

    def result(self):
        self.auto_stub_helpers()
        self.records.pop("_method_calls", None)
        text = "\n".join(l for l, _ in self.out) + "\n"
        linemap = [o for _, o in self.out]
        rec = dict(self.records)
        rec["files"] = sorted(rec["files"])
        return text, linemap, rec


def expand_unit(unit_name):
    path = os.path.join(VERIF, "units", unit_name + ".rs.tmpl")
    try:
        tmpl = open(path).read()
    except OSError as e:
        raise ExtractError(f"unit template {path}: {e}")
    return Expander("units/" + unit_name + ".rs.tmpl", tmpl).expand().result()


# ----------------------------------------------------------------------------
# static obligation enumeration over the generated file
# ----------------------------------------------------------------------------

def split_clauses(src, lo, hi):
    """count top-level comma separated, non-empty clauses between token idx [lo,hi)"""
    n, seen = 0, False
    k = lo
    while k < hi:
        t = src.toks[k]
        if t.kind == "p" and src.text[t.s] in OPEN:
            seen = True
            k = src.match[k] + 1
            continue
        if src.is_p(k, ","):
            if seen:
                n += 1
            seen = False
        elif t.kind not in ("ws", "lc", "bc"):
            seen = True
        k += 1
    if seen:
        n += 1
    return n


SPEC_KW = ("requires", "ensures", "decreases", "recommends", "invariant", "invariant_except_break", "returns", "opens_invariants", "no_unwind")


def enumerate_obligations(gen_text):
    """Return {fn_qualified_name: {"mode":..., "ensures": n, "requires": n, "invariants": n, "asserts": n, "line": l, "end": l}}"""
    src = Source(gen_text, "<generated>")
    res = {}

    def walk(lo, hi, prefix):
        k = lo
        while k < hi:
            t = src.toks[k]
            if t.kind == "id":
                w = src.tt(k)
                if w in ("impl", "trait", "mod") and (k == 0 or True):
                    # find body
                    j = k + 1
                    while j < hi and not src.is_p(j, "{") and not src.is_p(j, ";"):
                        if src.toks[j].kind == "p" and src.text[src.toks[j].s] in "([":
                            j = src.match[j]
                        j += 1
                    if j < hi and src.is_p(j, "{"):
                        header = " ".join(src.text[src.toks[k].s:src.toks[j].s].split())
                        if w == "impl":
                            tr, ty = impl_self_type(header)
                            p = prefix + ty + "::"
                        elif w == "trait":
                            p = prefix + re.split(r"[<\s:{]", header[len("trait"):].strip())[0] + "::"
                        else:
                            p = prefix + header.split()[1] + "::"
                        walk(j + 1, src.match[j], p)
                        k = src.match[j] + 1
                        continue
                if w == "fn":
                    n = src.sig(k + 1, hi)
                    name = prefix + src.tt(n)
                    # mode: look back for spec/proof on the same item
                    back = src.text[max(0, src.toks[k].s - 80):src.toks[k].s]
                    seg = back.split("\n")[-1] if "\n" in back else back
                    mode = "spec" if re.search(r"\bspec\b", seg) else ("proof" if re.search(r"\bproof\b", seg) else "exec")
                    back2 = src.text[max(0, src.toks[k].s - 200):src.toks[k].s]
                    if "external_body" in back2.split("}")[-1].split(";")[-1]:
                        mode = "external"
                    # params
                    j = n
                    while j < hi and not src.is_p(j, "("):
                        j += 1
                    j = src.match[j] + 1
                    # scan contract region to body '{' or ';'
                    counts = {"requires": 0, "ensures": 0, "decreases": 0}
                    cur_kw, cur_lo = None, None
                    body = None
                    while j < hi:
                        tj = src.toks[j]
                        if src.is_p(j, ";"):
                            break
                        if src.is_p(j, "{"):
                            body = j
                            break
                        if tj.kind == "id" and src.tt(j) in SPEC_KW:
                            if cur_kw in counts:
                                counts[cur_kw] += split_clauses(src, cur_lo, j)
                            cur_kw, cur_lo = src.tt(j), j + 1
                        elif tj.kind == "p" and src.text[tj.s] in "([":
                            j = src.match[j]
                        j += 1
                    if cur_kw in counts:
                        counts[cur_kw] += split_clauses(src, cur_lo, j)
                    inv = asserts = 0
                    endtok = j
                    if body is not None:
                        endtok = src.match[body]
                        q = body + 1
                        while q < endtok:
                            tq = src.toks[q]
                            if tq.kind == "id":
                                wq = src.tt(q)
                                if wq in ("invariant", "invariant_except_break"):
                                    r = q + 1
                                    while r < endtok and not src.is_p(r, "{") and not (src.toks[r].kind == "id" and src.tt(r) in ("decreases", "ensures")):
                                        if src.toks[r].kind == "p" and src.text[src.toks[r].s] in "([":
                                            r = src.match[r]
                                        r += 1
                                    inv += split_clauses(src, q + 1, r)
                                    q = r
                                    continue
                                if wq == "assert":
                                    asserts += 1
                            q += 1
                    if body is None and mode == "exec":
                        mode = "declared"
                    res[name] = {"mode": mode, "requires": counts["requires"], "ensures": counts["ensures"],
                                 "invariants": inv, "asserts": asserts,
                                 "line": src.line_of(src.toks[k].s), "end": src.line_of(src.toks[endtok].e - 1)}
                    k = endtok + 1
                    continue
            k += 1

    walk(0, len(src.toks), "")
    return res


if __name__ == "__main__":
    name = sys.argv[1]
    try:
        text, linemap, rec = expand_unit(name)
    except ExtractError as e:
        print("EXTRACT-ERROR:", e, file=sys.stderr)
        sys.exit(2)
    out = sys.argv[2] if len(sys.argv) > 2 else f"/tmp/{name}.rs"
    open(out, "w").write(text)
    import json
    print(json.dumps(rec, indent=1))
    print(json.dumps(enumerate_obligations(text), indent=1))
