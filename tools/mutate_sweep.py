#!/usr/bin/env python3
"""mutate_sweep.py <unit> [--jobs N] [--limit K] — mechanical single-token mutants of the repository functions a Verus unit takes,
run through that unit only (tools/verus_run.py), to find contracts that keep verifying after the behaviour changed.
Mutants that VERIFY (status ok) are survivors: either equivalent mutants or weak contracts — to be triaged by hand.
Nothing is written to /repo: each worker has its own scratch copy under /tmp/mutsweep-<pid>."""
import concurrent.futures as cf, json, os, re, shutil, subprocess, sys, tempfile
sys.path.insert(0, os.path.dirname(os.path.abspath(__file__)))
import extract

OPS = [(r"(?<![=!<>+\-*/&|^])==(?!=)", "!="), (r"!=", "=="), (r"(?<![<-])<(?![<=])", "<="), (r"<=", "<"), (r"(?<![>-])>(?![>=])", ">="), (r">=", ">"),
       (r"(?<![&])&(?![&=])", "|"), (r"(?<![|])\|(?![|=])", "&"), (r"\^(?!=)", "|"), (r"<<", ">>"), (r">>", "<<"),
       (r"(?<![+])\+(?![+=])", "-"), (r"(?<![-])-(?![-=>])", "+"), (r"\+=", "-="), (r"-=", "+="), (r"\|=", "&="), (r"&=", "|="), (r"\^=", "|="),
       (r"&&", "||"), (r"\|\|", "&&"), (r"\btrue\b", "false"), (r"\bfalse\b", "true"), (r"\b0\b", "1"), (r"\b1\b", "0"), (r"\b8\b", "7"), (r"\b16\b", "8"),
       (r"!(?=[a-zA-Z_(])", ""), (r"\bWHITE\b", "BLACK"), (r"\bBLACK\b", "WHITE"), (r"\bself\.white\b", "self.black"), (r"\bself\.black\b", "self.white"),
       (r"\bactive\b", "passive"), (r"\bpassive\b", "active"), (r"\bKING\b", "QUEEN"), (r"\bPAWN\b", "KNIGHT"), (r"\bROOK\b", "BISHOP"),
       (r"\bsource_square", "target_square"), (r"\btarget_square", "source_square")]

def mutants_for(unit):
    text, linemap, rec = extract.expand_unit(unit)
    out = []
    for tk in rec["takes"]:
        if tk["kind"] not in ("method", "fn", "traitfn", "fragment") or "lines" not in tk or tk.get("external"): continue
        f = tk["file"]
        lines = open(os.path.join(extract.REPO, f)).read().split("\n")
        lo, hi = tk["lines"]
        # skip the signature line(s): start after the first line containing '{'
        k = lo - 1
        while k < hi and "{" not in lines[k]: k += 1
        for ln in range(k + 1, hi):
            src = lines[ln]
            code = src.split("//")[0]
            if not code.strip(): continue
            for rx, rep in OPS:
                for m in re.finditer(rx, code):
                    new = code[:m.start()] + rep + code[m.end():] + src[len(code):]
                    out.append({"file": f, "line": ln + 1, "fn": tk["name"], "old": src.strip(), "new": new.strip(), "text": new})
        # statement deletion: lines that are a single statement ending in ';' and not a let
            s2 = code.strip()
            if s2.endswith(";") and not s2.startswith("let ") and not s2.startswith("return") and "{" not in s2 and "}" not in s2:
                out.append({"file": f, "line": ln + 1, "fn": tk["name"], "old": src.strip(), "new": "/* deleted */", "text": ""})
    return out

def worker(args):
    unit, muts, wid = args
    base = f"/tmp/mutsweep-{os.getpid()}-{wid}"
    shutil.rmtree(base, ignore_errors=True)
    os.makedirs(base + "/repo", exist_ok=True)
    subprocess.run(["rsync", "-a", "--exclude", "/target", "--exclude", ".git", extract.REPO + "/", base + "/repo/"], check=True)
    res = []
    env = dict(os.environ, VERIF_REPO=base + "/repo", VERIF_WORK=base + "/work")
    for mu in muts:
        p = os.path.join(base, "repo", mu["file"])
        orig = open(p).read()
        lines = orig.split("\n")
        lines[mu["line"] - 1] = mu["text"]
        open(p, "w").write("\n".join(lines))
        try:
            r = subprocess.run([sys.executable, os.path.join(os.path.dirname(os.path.abspath(__file__)), "verus_run.py"), unit], env=env, capture_output=True, text=True, timeout=600)
            first = r.stdout.split("\n")[0].split(" ")[0] if r.stdout else "crash"
        except subprocess.TimeoutExpired:
            first = "timeout"
        open(p, "w").write(orig)
        mu2 = dict(mu); mu2.pop("text"); mu2["status"] = first
        res.append(mu2)
    shutil.rmtree(base, ignore_errors=True)
    return res

def main():
    unit = sys.argv[1]
    jobs = int(sys.argv[sys.argv.index("--jobs") + 1]) if "--jobs" in sys.argv else 8
    limit = int(sys.argv[sys.argv.index("--limit") + 1]) if "--limit" in sys.argv else None
    only = sys.argv[sys.argv.index("--fn") + 1] if "--fn" in sys.argv else None
    muts = mutants_for(unit)
    if only: muts = [m for m in muts if re.search(only, m["fn"])]
    if limit: muts = muts[::max(1, len(muts) // limit)][:limit]
    print(f"{len(muts)} mutants for unit {unit}", flush=True)
    chunks = [(unit, muts[i::jobs], i) for i in range(jobs)]
    allres = []
    with cf.ProcessPoolExecutor(jobs) as ex:
        for r in ex.map(worker, chunks): allres += r
    by = {}
    for r in allres: by.setdefault(r["status"], []).append(r)
    print({k: len(v) for k, v in by.items()})
    os.makedirs("/tmp/p", exist_ok=True)
    json.dump(allres, open(f"/tmp/p/mutsweep_{unit}.json", "w"), indent=1)
    for r in sorted(by.get("ok", []), key=lambda r: (r["file"], r["line"])):
        print(f"SURVIVOR {r['file']}:{r['line']} {r['fn']}: `{r['old']}` -> `{r['new']}`")
main()
