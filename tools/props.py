"""Per-property configuration: which units decide it, which functions are the deciding set, what is assumed."""

EXTRACTION_RULES = [
    "every run re-extracts the items named by //@take from /repo's working tree, verbatim, into one verus! file (cargo verus cannot resolve vstd offline)",
    "dropped: outer attributes and doc comments of taken items; #[inline]/#[allow]/#[derive] attributes inside them",
    "`-> T` is rewritten to `-> (r: T)` to name the result; requires/ensures/invariant/decreases and proof{} blocks are spliced at signature/body boundary, loop headers and anchored statements; nothing executable is inserted or reordered",
    "consts initialised by `.trailing_zeros()` are emitted as `exec const` with a proved `ensures` giving their value",
    "`use`/`mod` lines are replaced by the unit's prelude; all items live in one module",
]

COMMON_TRUSTED = [
    "Verus 0.2026.09.13 (VIR/AIR encoding) and Z3",
    "vstd specifications of core/std functions used (u64::trailing_zeros, Vec::push, array indexing, HashMap/VecDeque models where used)",
    "the extractor tools/extract.py (verbatim copy + recorded rewrites)",
    "rustc semantics of the extracted items being the same inside the single-file crate as inside their home crate",
]

PROPS = {
    "C02": {
        "title": "make produces the rules' successor",
        "units": ["board_make"],
        "deciding": [r"^Bitboard::(make|make_castle|get_active_and_passive_mut|is_white_turn|opposite_turn)$",
                     r"^Move::(get_|is_)", r"^PlayerState::", r"^opposite_color$", r"^lemma_", r"_SHIFT$"],
        "owned": [r"^Bitboard::make$"],
        "design_ref": "DESIGN.md §3 C02",
        "assumptions": [
            "precondition board_wf(v): well-formed position (disjoint piece sets, one king each, rights imply home squares, e.p. square consistent, half-move clock < 4096, 1 <= full-move < u32::MAX)",
            "precondition move_wf(v,m): the packed Move is a consistent encoding of its (source,target,promotion) for v — established by the generator (C01 unit), not re-proved here",
            "FEN rendering of the fields (Fen::from(&Bitboard)) is String code and not under contract; the contract is on the fields FEN prints",
        ],
    },
    "C03": {
        "title": "unmake restores the position",
        "units": ["board_make"],
        "deciding": [r"^Bitboard::(unmake|unmake_castle|make_castle|make|get_active_and_passive_mut|is_white_turn|opposite_turn)$",
                     r"^Move::", r"^PlayerState::", r"^opposite_color$", r"^lemma_", r"_SHIFT$"],
        "owned": [r"^Bitboard::unmake$", r"^Move::set_previous_"],
        "design_ref": "DESIGN.md §3 C03",
        "assumptions": [
            "precondition of unmake: the board is exactly rules_succ(v0, m) for some well-formed v0 with move_wf(v0, m) (what make guarantees)",
            "hash equality follows from view equality because the hash functions are functions of the view (C06)",
        ],
    },
    "C18": {
        "title": "HashTable<ZobristHash,V> is a capacity-bounded FIFO map (data structure against abstract view)",
        "units": ["hashtable"],
        "deciding": [r"^HashTable::", r"^lemma_"],
        "owned": [r"^HashTable::(put|get|clear|new|len)$"],
        "design_ref": "DESIGN.md §3 C18",
        "assumptions": [
            "extraction rule of this unit: the hasher type argument nohash_hasher::BuildNoHashHasher<K> and HashMap::with_hasher(..) are replaced by the default hasher (a single-file Verus run cannot link the nohash_hasher crate); map semantics do not depend on the hasher for u64 keys (vstd: obeys_key_model::<u64>())",
            "vstd model specifications of std HashMap (insert/get/remove/len/clear) and VecDeque (push_back/pop_front/clear) are trusted",
            "capacity >= 1 is a precondition of new (the engine uses 10,000,000)",
            "load_factor (f32 division) is not under contract; HashMapTranspositionTable is a field-for-field delegating wrapper and is not re-verified",
        ],
    },
    "C10": {
        "title": "draw rules in search: repetition count over the history window, fifty-move threshold at 100 plies",
        "units": ["history", "heuristic"],
        "deciding": [r"^ZobristHistory::", r"^Heuristic::(evaluate|win_score|loss_score|draw_score)$", r"^lemma_shipped_thresholds$",
                     r"^Bitboard::ply_clock$", r"^max_i32$", r"^SimpleHeuristic::", r"^Bitboard::is_current_in_check$"],
        "owned": [r"^ZobristHistory::count_repetitions$", r"^Heuristic::evaluate$", r"^lemma_shipped_thresholds$", r"^Bitboard::ply_clock$"],
        "design_ref": "DESIGN.md §3 C10",
        "assumptions": [
            "count_repetitions: start_index < 5000 (array length) is a precondition; the position two plies back never equals the current one (chess fact: both sides would have to pass) — assumed, not proved",
            "std shim: core::cmp::max::<i32> (no vstd specification) routed through max_i32 with the obvious contract",
            "not under contract: that search_negamax records every node in the history and set_position_from records every game position (generic threaded code outside the subset); the contempt offset is read as a constant",
            "Heuristic::evaluate is verified generically in the trait; lemma_shipped_thresholds pins the associated constants of the shipped SimpleHeuristic (100 plies, 2^20 moves)",
            "Bitboard::is_current_in_check is assumed here with contract spec/contracts/is_current_in_check.txt (verified in unit attacks, C05)",
        ],
    },
    "C13": {
        "title": "move strings: a rejected move changes nothing (frame contracts on find_uci / make_uci / is_move_legal)",
        "units": ["uci_moves"],
        "deciding": [r"^Bitboard::(find_uci|make_uci|make_all_uci|is_move_legal|is_any_move_legal|make|unmake|is_valid)$", r"^find_generated$", r"^str_trim$",
                     r"^lemma_kings_preserved$", r"^SanSlice::", r"^(nondet|havoc_move|frame_is_any_move_legal|lemma_wf_preserved)$"],
        "owned": [r"^Bitboard::(find_uci|make_uci|make_all_uci|is_move_legal|is_any_move_legal)$", r"^SanSlice::"],
        "design_ref": "DESIGN.md §3 C13",
        "assumptions": [
            "Bitboard::make / unmake / is_valid are assumed here with the contract files spec/contracts/{make,unmake,is_valid}.txt; their bodies are verified against the same files in units board_make (C02/C03) and attacks (C05)",
            "find_generated (ASSUMED): the iterator chain generate_pseudo_legal_moves().into_iter().find(..).ok_or_else(..) returns an error or one generated move; generated moves of a legal position satisfy move_wf and capture no king (generator contract, C01)",
            "not decided: that the move selected is the one the text denotes (string equality over format!)",
            "uci_to_pgn is verified as a mechanical control-flow/board-mutation slice (tools/skeleton.py): conditions nondeterministic, closures as loops, move variables assumed to be generated moves of the current position; only the frame claim is decided for it",
            "make_all_uci (rollback list) is not yet under contract",
            "precondition legal_pos: well-formed position in which the side not to move is not in check",
        ],
    },
    "C09": {
        "title": "an interrupted search leaves the engine's position untouched: frame contract on every return path of search_negamax / search_quiescence",
        "units": ["search_frame"],
        "deciding": [r"^SearchSlice::", r"^Bitboard::(make|unmake)$", r"^(nondet|havoc_move|frame_is_any_move_legal|lemma_wf_preserved)$"],
        "owned": [r"^SearchSlice::"],
        "design_ref": "DESIGN.md §1.3, §3 C09",
        "level_text": "proof of the frame claim (board view on exit == board view on entry) for every return path, with every branch condition — including the stop flag and the clock — nondeterministic, i.e. for every interruption point and timing; other clauses of C09 are not decided",
        "technique": "contract-based deductive verification (Verus) of a mechanical control-flow/board-mutation slice re-derived from the real source on every run, against the make/unmake contracts",
        "assumptions": [
            "the verified text is a mechanical slice (tools/skeleton.py) of Search::search_negamax and Search::search_quiescence: control flow and board calls kept, every condition nondeterministic, everything else dropped after a syntactic frame check (no assignment to / &mut of the board path, dropped &mut-self methods recursively board-clean, board methods called from dropped code have &self receivers in the real source)",
            "ASSUMED data flow: each move variable passed to make/unmake is a generated move of the position current at its binding site (move_wf, no king capture, clocks in machine range)",
            "make/unmake assumed with contract files spec/contracts/{make,unmake}.txt (bodies verified in unit board_make); lemma_wf_preserved assumed, discharged by Kani harness rules::wf_preserved",
            "safe Rust: no `unsafe` in the sliced functions (checked lexically), no interior mutability in Bitboard",
            "NOT decided: that the following go searches with the same score as a fresh engine, and that exactly one bestmove from the last completed iteration is sent (search-result / timing claims)",
            "termination is not claimed (exec_allows_no_decreases_clause)",
        ],
        "kani": [{"set": "rules", "harnesses": ["wf_preserved"]}],
    },
    "C04": {
        "title": "precomputed attack tables equal ray/step attacks for every square and every occupancy; every unchecked lookup stays inside its table",
        "units": [],
        "deciding": [],
        "owned": [],
        "design_ref": "DESIGN.md §3 C04",
        "level_text": "complete proof by CBMC/SAT: 64 rook + 64 bishop harnesses over a fully symbolic 64-bit occupancy each, 4 leaper-table harnesses over a symbolic square; loops of the ray oracle are bounded by the board width (unwind 9, unwinding assertions on); Kani checks every get_unchecked dereference, so an out-of-table index is a reported failure",
        "technique": "Kani/CBMC full-domain harnesses on the real tables and the real lookup functions (constant tables are out of SMT reach), oracle written from the property statement",
        "assumptions": [
            "trusted: Kani's Rust->GOTO translation, CBMC 6.11, rustc const evaluation of the tables being what is linked",
            "the ray/step oracle (kani/tables.rs) is the specification: written from the property statement (slide until first blocker, blocker included; step patterns clipped at the edge)",
            "Magics::get_attacks indexes the outer array with get_unchecked(square): square < 64 is a precondition that call sites establish (C01/C05 units)",
        ],
        "kani": [{"set": "tables"}],
    },
}
