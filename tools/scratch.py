"""scratch copies of /repo (outside /repo and /verif), removed after use"""
import os
import shutil
import subprocess
import tempfile

REPO = os.environ.get("VERIF_REPO", "/repo")
VERIF = os.path.dirname(os.path.dirname(os.path.abspath(__file__)))
CACHE = os.path.join(VERIF, ".cache")


class Scratch:
    def __init__(self, tag="s"):
        self.dir = tempfile.mkdtemp(prefix=f"verif-{tag}-", dir=os.environ.get("VERIF_SCRATCH_BASE", "/tmp"))
        self.repo = os.path.join(self.dir, "repo")

    def __enter__(self):
        subprocess.run(["rsync", "-a", "--exclude", "/target", "--exclude", ".git", REPO + "/", self.repo + "/"], check=True)
        return self

    def __exit__(self, *a):
        shutil.rmtree(self.dir, ignore_errors=True)

    def write(self, rel, text, append=False):
        p = os.path.join(self.repo, rel)
        os.makedirs(os.path.dirname(p), exist_ok=True)
        with open(p, "a" if append else "w") as f:
            f.write(text)


def cargo_env(target_name):
    env = dict(os.environ)
    env["CARGO_NET_OFFLINE"] = "true"
    env["CARGO_TARGET_DIR"] = os.path.join(CACHE, target_name)
    os.makedirs(env["CARGO_TARGET_DIR"], exist_ok=True)
    return env
