"""scratch copies of /repo (outside /repo and /verif), removed after use"""
import os
import shutil
import subprocess
import tempfile

REPO = os.environ.get("VERIF_REPO", "/repo")
VERIF = os.path.dirname(os.path.dirname(os.path.abspath(__file__)))
CACHE = os.path.join(VERIF, ".cache")


class Scratch:
    def __init__(self, tag="s"):
        self.dir = tempfile.mkdtemp(prefix=f"verif-{tag}-", dir=os.environ.get("VERIF_SCRATCH_BASE", "/tmp"))
        self.repo = os.path.join(self.dir, "repo")

    def __enter__(self):
        subprocess.run(["rsync", "-a", "--exclude", "/target", "--exclude", ".git", REPO + "/", self.repo + "/"], check=True)
        freshen(self.repo)
        return self

    def __exit__(self, *a):
        shutil.rmtree(self.dir, ignore_errors=True)

    def write(self, rel, text, append=False):
        p = os.path.join(self.repo, rel)
        os.makedirs(os.path.dirname(p), exist_ok=True)
        with open(p, "a" if append else "w") as f:
            f.write(text)


def freshen(repo_dir):
    """give every source file of a scratch copy the current mtime: the build caches under /verif/.cache are shared between
    scratch copies of different trees (unchanged, seeded), and cargo's freshness test is mtime-based — a copy whose files
    are older than a cached artifact of ANOTHER tree would otherwise be considered up to date"""
    now = None
    for root, dirs, files in os.walk(repo_dir):
        dirs[:] = [d for d in dirs if d not in ("target", ".git")]
        for f in files:
            if f.endswith((".rs", ".toml", ".lock")):
                os.utime(os.path.join(root, f), now)


def cargo_env(target_name):
    env = dict(os.environ)
    env["CARGO_NET_OFFLINE"] = "true"
    env["CARGO_TARGET_DIR"] = os.path.join(CACHE, target_name)
    os.makedirs(env["CARGO_TARGET_DIR"], exist_ok=True)
    return env


import contextlib, fcntl


@contextlib.contextmanager
def cargo_lock(target_name):
    """one cargo invocation at a time per shared target directory, also across concurrently running checks"""
    os.makedirs(CACHE, exist_ok=True)
    f = open(os.path.join(CACHE, target_name + ".lock"), "w")
    try:
        fcntl.flock(f, fcntl.LOCK_EX)
        yield
    finally:
        try:
            fcntl.flock(f, fcntl.LOCK_UN)
        finally:
            f.close()
