#!/usr/bin/env python3
"""skeleton.py — mechanical control-flow / board-mutation slice of a function (DESIGN §1.3).

For the single claim "the board view on exit equals the board view on entry" a function that is far outside any
verifier's subset (generic Search<T,H,M>, Arc, channels, SystemTime, closures, format!, regex) is reduced, on
every run and from the real source text, to its control flow and its calls on the board:

  kept       block structure, if/else, match arms, loop/while/for, closures (as loops: a closure may run any number
             of times), return/break/continue, `?`, and every call that can change the board:
             <board>.make(x), <board>.unmake(x), <board>.is_move_legal(x), <board>.is_any_move_legal(xs),
             and calls of the sliced functions themselves (recursion)
  abstracted every branch condition becomes nondet(); every loop becomes `while nondet()`; a variable that is passed
             to make/unmake/is_move_legal is bound, at its binding site, to an arbitrary move that is well-formed for the
             position current at that site (ASSUMPTION, listed: moves come from the list generated for that position)
  dropped    every other token — after a syntactic frame check: it must not assign to the board or a prefix of its
             path, must not take `&mut` of it, may call board methods only if their receiver is `&self` in the real
             source, and may call other `&mut self` methods of the same impl only if the same check, applied
             recursively to their bodies, shows they never touch the board.  Anything unclassifiable => SliceError
             (the check exits 2, never a VIOLATION).

Soundness for the frame claim rests on safe Rust (no `unsafe` in the sliced functions, checked lexically; no
interior mutability inside Bitboard).  The slice decides nothing else (no values, no move choice).
"""
import os
import re
import sys

sys.path.insert(0, os.path.dirname(os.path.abspath(__file__)))
import extract  # noqa: E402
from extract import ExtractError  # noqa: E402


class SliceError(ExtractError):
    pass


KEPT = {"make": 1, "unmake": 1, "is_move_legal": 1, "is_any_move_legal": 0}   # name -> number of move arguments kept
ASSIGN_OPS = ("=", "+=", "-=", "|=", "&=", "^=", "<<=", ">>=", "*=", "/=", "%=")


class Slicer:
    def __init__(self, relpath, impl_type, fn_names, board_path, board_file="board/src/board.rs"):
        self.relpath = relpath
        self.src = extract.load(relpath)
        self.impl_type = impl_type
        self.fn_names = list(fn_names)           # functions sliced together (mutual recursion)
        self.board_path = board_path.split(".")  # e.g. ["self","state","bitboard"] or ["self"]
        self.board_src = extract.load(board_file)
        self.readonly_cache = {}
        self.clean_cache = {}
        self.notes = {"dropped_calls_checked": set(), "readonly_board_calls": set(), "havoc_bindings": [], "functions": []}
        self.methods = {}
        for it in self.src.items:
            if it.kind == "impl" and extract.impl_self_type(it.header)[1] == impl_type:
                for ch in it.children:
                    if ch.kind == "fn":
                        self.methods.setdefault(ch.name, ch)

    # ---------------------------------------------------------------- token helpers
    def sig(self, i, hi):
        return self.src.sig(i, hi)

    def tt(self, i):
        return self.src.tt(i)

    def is_id(self, i, w=None):
        t = self.src.toks[i]
        return t.kind == "id" and (w is None or self.src.tt(i) == w)

    def match_path(self, i, hi, path):
        """if tokens at i spell path a.b.c return index after it else None"""
        k = i
        for n, seg in enumerate(path):
            k = self.sig(k, hi)
            if k >= hi or not self.is_id(k, seg):
                return None
            k += 1
            if n + 1 < len(path):
                k = self.sig(k, hi)
                if k >= hi or not self.src.is_p(k, "."):
                    return None
                k += 1
        return k

    def board_method_readonly(self, name):
        if name in self.readonly_cache:
            return self.readonly_cache[name]
        ok = None
        for it in self.board_src.items:
            if it.kind == "impl" and extract.impl_self_type(it.header)[1] == "Bitboard":
                for ch in it.children:
                    if ch.kind == "fn" and ch.name == name:
                        s = self.board_src
                        k = ch.kw
                        while not s.is_p(k, "("):
                            k += 1
                        params = " ".join(s.text[s.toks[k].e:s.toks[s.match[k]].s].split())
                        ok = params.startswith("&self") or not params.startswith(("self", "&mut self", "mut self"))
        self.readonly_cache[name] = ok
        return ok

    # ---------------------------------------------------------------- frame check of dropped tokens
    def check_tokens(self, lo, hi, ctx):
        """syntactic frame check over token range [lo,hi) that is NOT going to be emitted"""
        s = self.src
        k = lo
        while k < hi:
            t = s.toks[k]
            if t.kind == "id":
                w = s.tt(k)
                if w == "unsafe":
                    raise SliceError(f"{ctx}: `unsafe` in sliced code at line {s.line_of(t.s)}")
                if w == "self":
                    self.check_self_use(k, hi, ctx)
            k += 1

    def next_op(self, k, hi):
        """the operator text starting at significant token k (joined adjacent puncts)"""
        s = self.src
        k = self.sig(k, hi)
        if k >= hi or s.toks[k].kind != "p":
            return ""
        j = k
        op = ""
        while j < hi and s.toks[j].kind == "p" and s.text[s.toks[j].s] in "=+-|&^<>*/%!" and (j == k or s.toks[j].s == s.toks[j - 1].e):
            op += s.text[s.toks[j].s]
            j += 1
        return op

    def check_self_use(self, k, hi, ctx):
        s = self.src
        line = s.line_of(s.toks[k].s)
        # preceded by `&mut` ?
        p = k - 1
        while p >= 0 and s.toks[p].kind in ("ws", "lc", "bc"):
            p -= 1
        preceded_mut = p >= 1 and self.is_id(p, "mut") and self._prev_sig_is(p, "&")
        preceded_star = p >= 0 and s.is_p(p, "*")
        # collect the path self.a.b.c
        path = ["self"]
        j = k + 1
        while True:
            j2 = self.sig(j, hi)
            if j2 < hi and s.is_p(j2, ".") and self.sig(j2 + 1, hi) < hi and self.is_id(self.sig(j2 + 1, hi)):
                nm = self.sig(j2 + 1, hi)
                # method call?
                after = self.sig(nm + 1, hi)
                if after < hi and s.is_p(after, "(") or (after < hi and s.is_p(after, ":") and s.is_p(after + 1, ":")):
                    path.append(s.tt(nm) + "()")
                    j = nm + 1
                    break
                path.append(s.tt(nm))
                j = nm + 1
            else:
                break
        bp = self.board_path
        fields = [x for x in path if not x.endswith("()")]
        call = path[-1][:-2] if path[-1].endswith("()") else None
        is_prefix_of_board = len(fields) <= len(bp) and bp[:len(fields)] == fields
        reaches_board = len(fields) >= len(bp) and fields[:len(bp)] == bp
        op = self.next_op(j, hi)
        if preceded_mut and (is_prefix_of_board or reaches_board) and call is None:
            raise SliceError(f"{ctx}: `&mut {'.'.join(fields)}` may alias the board (line {line})")
        if preceded_star and fields == ["self"] and call is None and op in ASSIGN_OPS:
            raise SliceError(f"{ctx}: `*self = ..` (line {line})")
        if call is None:
            if op in ASSIGN_OPS and (is_prefix_of_board or reaches_board) and not (op == "=" and self.next_op(j, hi) == "=="):
                raise SliceError(f"{ctx}: assignment to `{'.'.join(fields)}` changes the board or a prefix of its path (line {line})")
            if fields == ["self"]:
                # bare `self` passed somewhere
                nxt = self.sig(j, hi)
                if nxt < hi and (s.is_p(nxt, ",") or s.is_p(nxt, ")")) and self.board_path != ["self"]:
                    raise SliceError(f"{ctx}: `self` passed as a whole (line {line})")
            return
        # a method call
        if reaches_board and len(fields) == len(bp):
            if call in KEPT or (bp == ["self"] and call in self.fn_names):
                raise SliceError(f"{ctx}: board call `{call}` in a position the slicer does not keep (line {line})")
            ro = self.board_method_readonly(call) if bp != ["self"] or call not in self.methods or True else None
            if ro is None and bp == ["self"]:
                ro = self.board_method_readonly(call)
            if ro is True:
                self.notes["readonly_board_calls"].add(call)
                return
            if ro is None:
                # field-typed helper such as self.white.kings(): not a Bitboard method; receiver is a field read
                raise SliceError(f"{ctx}: cannot classify board method `{call}` (line {line})")
            raise SliceError(f"{ctx}: board method `{call}` takes `&mut self` and has no frame contract (line {line})")
        if reaches_board and len(fields) > len(bp):
            # method on a field of the board (e.g. self.white.kings()) — fields of Bitboard are plain data; PlayerState's
            # `*_ref` accessors hand out &mut
            if call.endswith("_ref"):
                raise SliceError(f"{ctx}: `{'.'.join(fields)}.{call}()` hands out a mutable reference into the board (line {line})")
            return
        if fields == ["self"] and bp != ["self"]:
            if call in self.fn_names:
                raise SliceError(f"{ctx}: recursive call `{call}` in a position the slicer does not keep (line {line})")
            self.check_method_clean(call, ctx)
            return
        # method on some other field (self.state.metrics.x(), self.uci_tx.info(..)): cannot reach the board (ownership)
        return

    def _prev_sig_is(self, p, ch):
        s = self.src
        q = p - 1
        while q >= 0 and s.toks[q].kind in ("ws", "lc", "bc"):
            q -= 1
        return q >= 0 and s.is_p(q, ch)

    def check_method_clean(self, name, ctx):
        """a `&mut self` method of the same impl that is dropped: its body must never touch the board"""
        if name in self.clean_cache:
            if self.clean_cache[name] is False:
                raise SliceError(f"{ctx}: method `{name}` is not board-clean")
            return
        m = self.methods.get(name)
        if m is None:
            raise SliceError(f"{ctx}: cannot find method `{name}` of {self.impl_type} to check that it leaves the board alone")
        self.clean_cache[name] = True  # recursion guard
        s = self.src
        if m.body_open is None:
            raise SliceError(f"{ctx}: method `{name}` has no body")
        lo, hi = m.body_open + 1, s.match[m.body_open]
        # no kept calls on the board inside
        k = lo
        while k < hi:
            if self.is_id(k, "self"):
                e = self.match_path(k, hi, self.board_path)
                if e is not None:
                    d = self.sig(e, hi)
                    if d < hi and s.is_p(d, "."):
                        nm = self.sig(d + 1, hi)
                        if self.is_id(nm) and s.tt(nm) in KEPT:
                            self.clean_cache[name] = False
                            raise SliceError(f"{ctx}: dropped method `{name}` calls board.{s.tt(nm)}")
            k += 1
        try:
            self.check_tokens(lo, hi, f"{ctx} -> {name}")
        except SliceError:
            self.clean_cache[name] = False
            raise
        self.notes["dropped_calls_checked"].add(name)

    # ---------------------------------------------------------------- move variables
    def move_vars(self, lo, hi):
        """identifiers passed to make/unmake/is_move_legal -> needs_ref (used as `*x`)"""
        s = self.src
        mv = {}
        k = lo
        while k < hi:
            if self.is_id(k, "self"):
                e = self.match_path(k, hi, self.board_path)
                if e is not None:
                    d = self.sig(e, hi)
                    if d < hi and s.is_p(d, "."):
                        nm = self.sig(d + 1, hi)
                        if nm < hi and self.is_id(nm) and KEPT.get(s.tt(nm)) == 1:
                            op = self.sig(nm + 1, hi)
                            if op < hi and s.is_p(op, "("):
                                a, b = op + 1, s.match[op]
                                toks = [x for x in range(a, b) if s.toks[x].kind not in ("ws", "lc", "bc")]
                                deref = False
                                if toks and s.is_p(toks[0], "*"):
                                    deref = True
                                    toks = toks[1:]
                                if len(toks) != 1 or not self.is_id(toks[0]):
                                    raise SliceError(f"{self.relpath}: argument of board.{s.tt(nm)} is not a plain variable (line {s.line_of(s.toks[op].s)})")
                                name = s.tt(toks[0])
                                mv[name] = mv.get(name, False) or deref
            k += 1
        return mv

    # ---------------------------------------------------------------- slicing
    def slice_function(self, name):
        m = self.methods.get(name)
        if m is None or m.body_open is None:
            raise SliceError(f"{self.relpath}: function {self.impl_type}::{name} not found")
        s = self.src
        self.cur_fn = name
        lo, hi = m.body_open + 1, s.match[m.body_open]
        self.mv = self.move_vars(lo, hi)
        self.bound = set()
        self.loop_no = 0
        self.make_no = 0
        self.out = []
        self.ind = 1
        self.line0 = s.line_of(s.toks[m.kw].s)
        self.emit_block_contents(lo, hi)
        missing = set(self.mv) - self.bound
        if missing:
            raise SliceError(f"{self.relpath}:{name}: no binding site found for move variable(s) {sorted(missing)}")
        self.notes["functions"].append({"name": name, "lines": [s.line_of(m.start), s.line_of(m.end)]})
        return self.out

    def emit(self, text, tok=None):
        origin = None
        if tok is not None:
            origin = self.src.line_of(self.src.toks[tok].s)
        self.out.append(("    " * self.ind + text, origin))

    def havoc(self, name, tok):
        if name in self.mv:
            self.bound.add(name)
            if self.mv[name]:
                self.emit(f"let {name}_val = havoc_move(board); let {name} = &{name}_val;", tok)
            else:
                self.emit(f"let {name} = havoc_move(board);", tok)
            self.notes["havoc_bindings"].append(f"{self.cur_fn}:{name}@{self.src.line_of(self.src.toks[tok].s)}")

    def idents_in(self, lo, hi):
        return [self.tt(k) for k in range(lo, hi) if self.is_id(k)]

    def emit_block_contents(self, lo, hi):
        """statements of a block [lo,hi)"""
        s = self.src
        k = self.sig(lo, hi)
        while k < hi:
            k = self.emit_statement(k, hi)
            k = self.sig(k, hi)

    def find_block_open(self, k, hi):
        s = self.src
        while k < hi:
            if s.is_p(k, "{"):
                return k
            if s.toks[k].kind == "p" and s.text[s.toks[k].s] in "([":
                k = s.match[k]
            k += 1
        raise SliceError(f"{self.relpath}: block expected (line {s.line_of(s.toks[min(k, hi) - 1].s)})")

    def emit_statement(self, k, hi):
        """emit the slice of the statement starting at token k; return index after it"""
        s = self.src
        if s.is_p(k, ";"):
            return k + 1
        if self.is_id(k) and s.tt(k) in ("if", "match", "for", "while", "loop") or s.is_p(k, "{"):
            e = self.emit_control(k, hi)
            e2 = self.sig(e, hi)
            if e2 < hi and s.is_p(e2, ";"):
                return e2 + 1
            if e2 < hi and (s.is_p(e2, ".") or s.is_p(e2, "?")):
                # block-like expression continued by a method chain: scan the rest generically
                end = self.stmt_end(e2, hi)
                self.emit_generic(e2, end)
                return end + 1 if end < hi else end
            return e
        # let / expression statement: up to `;` at depth 0 (or end of block = tail expression)
        end = self.stmt_end(k, hi)
        if self.is_id(k, "self") and self.board_path != ["self"]:
            e = self.match_path(k, hi, self.board_path)
            if e is not None and self.next_op(e, hi) == "=":
                eq = self.sig(e, hi)
                self.emit_generic(eq + 1, end)
                self.emit("havoc_board(board);", k)
                self.notes.setdefault("degraded", []).append(f"{self.cur_fn}: assignment to `{'.'.join(self.board_path)}` at line {s.line_of(s.toks[k].s)}; modelled as an arbitrary change of the board")
                return end + 1 if end < hi else end
        letname = None
        if self.is_id(k, "let"):
            j = self.sig(k + 1, hi)
            if self.is_id(j, "mut"):
                j = self.sig(j + 1, hi)
            if self.is_id(j):
                letname = (s.tt(j), j)
        self.emit_generic(k, end)
        if letname and letname[0] in self.mv:
            self.havoc(letname[0], letname[1])
        return end + 1 if end < hi else end

    def stmt_end(self, k, hi):
        s = self.src
        while k < hi:
            if s.is_p(k, ";"):
                return k
            if s.toks[k].kind == "p" and s.text[s.toks[k].s] in "([{":
                k = s.match[k]
            k += 1
        return hi

    def emit_control(self, k, hi):
        s = self.src
        w = s.tt(k) if self.is_id(k) else "{"
        if w == "{":
            self.emit("{", k)
            self.ind += 1
            self.emit_block_contents(k + 1, s.match[k])
            self.ind -= 1
            self.emit("}")
            return s.match[k] + 1
        if w == "if":
            b = self.find_block_open(k + 1, hi)
            self.emit_generic(k + 1, b)         # calls inside the condition run first
            self.emit("if nondet() {", k)
            self.ind += 1
            self.emit_block_contents(b + 1, s.match[b])
            self.ind -= 1
            e = self.sig(s.match[b] + 1, hi)
            if e < hi and self.is_id(e, "else"):
                n = self.sig(e + 1, hi)
                if self.is_id(n, "if"):
                    self.emit("} else {")
                    self.ind += 1
                    r = self.emit_control(n, hi)
                    self.ind -= 1
                    self.emit("}")
                    return r
                self.emit("} else {")
                self.ind += 1
                self.emit_block_contents(n + 1, s.match[n])
                self.ind -= 1
                self.emit("}")
                return s.match[n] + 1
            self.emit("}")
            return s.match[b] + 1
        if w == "match":
            b = self.find_block_open(k + 1, hi)
            self.emit_generic(k + 1, b)
            a, end = b + 1, s.match[b]
            first = True
            a = self.sig(a, end)
            while a < end:
                # pattern (and guard) up to `=>`
                p = a
                while p < end and not (s.is_p(p, "=") and s.is_p(p + 1, ">") and s.toks[p].e == s.toks[p + 1].s):
                    if s.toks[p].kind == "p" and s.text[s.toks[p].s] in "([{":
                        p = s.match[p]
                    p += 1
                if p >= end:
                    raise SliceError(f"{self.relpath}: match arm without `=>` (line {s.line_of(s.toks[a].s)})")
                self.check_tokens(a, p, self.cur_fn)
                body = self.sig(p + 2, end)
                self.emit(("if" if first else "} else if") + " nondet() {", a)
                first = False
                self.ind += 1
                if s.is_p(body, "{"):
                    self.emit_block_contents(body + 1, s.match[body])
                    nxt = self.sig(s.match[body] + 1, end)
                    if nxt < end and s.is_p(nxt, ","):
                        nxt += 1
                else:
                    q = body
                    while q < end and not s.is_p(q, ","):
                        if s.toks[q].kind == "p" and s.text[s.toks[q].s] in "([{":
                            q = s.match[q]
                        q += 1
                    self.emit_generic(body, q)
                    nxt = q + 1
                self.ind -= 1
                a = self.sig(nxt, end)
            if not first:
                self.emit("}")
            return end + 1
        if w in ("while", "loop", "for"):
            b = self.find_block_open(k + 1, hi)
            loopvars = []
            if w == "for":
                j = k + 1
                while j < b and not self.is_id(j, "in"):
                    j += 1
                loopvars = [(s.tt(x), x) for x in range(k + 1, j) if self.is_id(x) and s.tt(x) in self.mv]
                self.emit_generic(j + 1, b)
            elif w == "while":
                self.check_cond_calls(k + 1, b)
            self.loop_no += 1
            g = f"at_loop_{self.loop_no}"
            self.emit(f"let ghost {g} = pos_of(*board);", k)
            self.emit("while nondet()", k)
            self.emit(f"    invariant pos_of(*board) == {g}, board_wf(pos_of(*board)),")
            self.emit("{")
            self.ind += 1
            if w == "while":
                self.emit_generic(k + 1, b)
            for nm, tk in loopvars:
                self.havoc(nm, tk)
            self.emit_block_contents(b + 1, s.match[b])
            self.ind -= 1
            self.emit("}")
            return s.match[b] + 1
        raise SliceError("internal: control")

    def check_cond_calls(self, lo, hi):
        pass

    def emit_generic(self, lo, hi):
        """scan a token range in textual (evaluation) order, emitting kept calls, closures-as-loops, nested control
        flow, return/break/continue and `?`; everything else is frame-checked and dropped"""
        s = self.src
        k = lo
        seg_start = lo
        while k < hi:
            t = s.toks[k]
            if t.kind == "id":
                w = s.tt(k)
                if w == "self":
                    e = self.match_path(k, hi, self.board_path)
                    handled = False
                    if e is not None:
                        d = self.sig(e, hi)
                        if d < hi and s.is_p(d, "."):
                            nm = self.sig(d + 1, hi)
                            op = self.sig(nm + 1, hi) if nm < hi else hi
                            if nm < hi and self.is_id(nm) and op < hi and s.is_p(op, "("):
                                name = s.tt(nm)
                                if name in KEPT or (self.board_path == ["self"] and name in self.fn_names):
                                    self.check_tokens(seg_start, k, self.cur_fn)
                                    self.emit_generic(op + 1, s.match[op])   # arguments first
                                    self.emit_call(name, op, nm)
                                    k = s.match[op] + 1
                                    seg_start = k
                                    handled = True
                    if not handled and self.board_path != ["self"]:
                        # recursion through self.NAME(..)
                        d = self.sig(k + 1, hi)
                        if d < hi and s.is_p(d, "."):
                            nm = self.sig(d + 1, hi)
                            op = self.sig(nm + 1, hi) if nm < hi else hi
                            if nm < hi and self.is_id(nm) and s.tt(nm) in self.fn_names and op < hi and s.is_p(op, "("):
                                self.check_tokens(seg_start, k, self.cur_fn)
                                self.emit_generic(op + 1, s.match[op])
                                self.emit(f"Self::{s.tt(nm)}_slice(board);", nm)
                                k = s.match[op] + 1
                                seg_start = k
                                handled = True
                            elif nm < hi and self.is_id(nm) and s.tt(nm) in self.methods and op < hi and s.is_p(op, "("):
                                # a helper of the same impl that is not sliced: dropped if it provably leaves the board
                                # alone, otherwise over-approximated by "the board is arbitrary afterwards"
                                try:
                                    self.check_method_clean(s.tt(nm), self.cur_fn)
                                except SliceError as e:
                                    self.check_tokens(seg_start, k, self.cur_fn)
                                    self.emit_generic(op + 1, s.match[op])
                                    self.emit("havoc_board(board);", nm)
                                    self.notes.setdefault("degraded", []).append(f"{self.cur_fn}: helper `{s.tt(nm)}` is not board-clean ({e}); modelled as an arbitrary change of the board")
                                    k = s.match[op] + 1
                                    seg_start = k
                                    handled = True
                    if handled:
                        continue
                elif w in ("if", "match", "loop", "while", "for") or (w == "unsafe"):
                    if w == "unsafe":
                        raise SliceError(f"{self.relpath}: unsafe block (line {s.line_of(t.s)})")
                    self.check_tokens(seg_start, k, self.cur_fn)
                    k = self.emit_control(k, hi)
                    seg_start = k
                    continue
                elif w == "return":
                    self.check_tokens(seg_start, k, self.cur_fn)
                    end = self.stmt_end(k, hi)
                    self.emit_generic(k + 1, end)
                    self.emit("return;", k)
                    k = end
                    seg_start = k
                    continue
                elif w in ("break", "continue"):
                    self.emit(w + ";", k)
                elif w == "move":
                    pass
            elif t.kind == "p":
                ch = s.text[t.s]
                if ch == "?":
                    self.emit("if nondet() { return; }", k)
                elif ch == "|" and self.closure_start(k, lo):
                    self.check_tokens(seg_start, k, self.cur_fn)
                    k = self.emit_closure(k, hi)
                    seg_start = k
                    continue
                elif ch == "{":
                    # a nested non-control block (struct literal, block expression): scan inside
                    self.check_tokens(seg_start, k, self.cur_fn)
                    self.emit_generic(k + 1, s.match[k])
                    k = s.match[k] + 1
                    seg_start = k
                    continue
            k += 1
        self.check_tokens(seg_start, hi, self.cur_fn)

    def emit_call(self, name, op, nm):
        s = self.src
        if name in KEPT:
            if KEPT[name] == 1:
                arg = " ".join(s.text[s.toks[op].e:s.toks[s.match[op]].s].split())
                if name == "make":
                    self.make_no += 1
                    g = f"before_make_{self.make_no}"
                    self.emit(f"let ghost {g} = pos_of(*board);", nm)
                    self.emit(f"board.{name}({arg});", nm)
                    self.emit(f"proof {{ lemma_wf_preserved({g}, {arg}); }}", nm)
                else:
                    self.emit(f"board.{name}({arg});", nm)
            else:
                self.emit(f"frame_{name}(board);", nm)
        else:
            self.emit(f"Self::{name}_slice(board);", nm)

    def closure_start(self, k, lo):
        s = self.src
        p = k - 1
        while p >= lo and s.toks[p].kind in ("ws", "lc", "bc"):
            p -= 1
        if p < lo:
            return True
        if s.toks[p].kind == "p" and s.text[s.toks[p].s] in "(,={;":
            return True
        if self.is_id(p) and s.tt(p) in ("move", "return"):
            return True
        return False

    def emit_closure(self, k, hi):
        s = self.src
        # parameters: `||` or `| ... |`
        if s.is_p(k + 1, "|") and s.toks[k + 1].s == s.toks[k].e:
            pe = k + 1
        else:
            pe = k + 1
            while pe < hi and not s.is_p(pe, "|"):
                if s.toks[pe].kind == "p" and s.text[s.toks[pe].s] in "([{":
                    pe = s.match[pe]
                pe += 1
        params = [(s.tt(x), x) for x in range(k + 1, pe) if self.is_id(x) and s.tt(x) in self.mv]
        body = self.sig(pe + 1, hi)
        self.loop_no += 1
        g = f"at_loop_{self.loop_no}"
        self.emit(f"let ghost {g} = pos_of(*board);", k)
        self.emit("while nondet()   // closure: may run any number of times", k)
        self.emit(f"    invariant pos_of(*board) == {g}, board_wf(pos_of(*board)),")
        self.emit("{")
        self.ind += 1
        for nm, tk in params:
            self.havoc(nm, tk)
        if body < hi and s.is_p(body, "{"):
            self.emit_block_contents(body + 1, s.match[body])
            end = s.match[body] + 1
        else:
            q = body
            while q < hi and not s.is_p(q, ","):
                if s.toks[q].kind == "p" and s.text[s.toks[q].s] in "([{":
                    q = s.match[q]
                elif s.toks[q].kind == "p" and s.text[s.toks[q].s] in ")]}":
                    break   # end of the argument list the closure is part of
                q += 1
            self.emit_generic(body, q)
            end = q
        self.ind -= 1
        self.emit("}")
        return end


PRELUDE = '''
/// nondeterministic branch condition (every condition of the sliced function, including the stop flag and the clock)
#[verifier::external_body]
pub fn nondet() -> (r: bool) { unimplemented!() }

/// ASSUMPTION (data flow, listed): a move variable bound in a sliced function denotes a generated move of the position
/// current at its binding site: consistently encoded, capturing no king, with clocks inside the machine range
#[verifier::external_body]
pub fn havoc_move(board: &Bitboard) -> (m: Move)
    ensures move_wf(pos_of(*board), m), no_king_capture(pos_of(*board), m), clocks_ok(pos_of(*board))
{ unimplemented!() }

/// OVER-APPROXIMATION used only when a sliced function (or a helper it calls) assigns a new value to the board, which the
/// slicer cannot follow: afterwards the board is arbitrary.  A unit that contains a call of this function is DEGRADED:
/// a failing obligation is then reported as a violation only together with a failing input reproduced on the real code.
#[verifier::external_body]
pub fn havoc_board(board: &mut Bitboard) { unimplemented!() }

/// Bitboard::is_any_move_legal restores the board (frame part of its contract; body verified verbatim in unit uci_moves)
#[verifier::external_body]
pub fn frame_is_any_move_legal(board: &mut Bitboard)
    requires board_wf(pos_of(*old(board)))
    ensures pos_of(*final(board)) == pos_of(*old(board))
{ unimplemented!() }
'''


def render(slicer, names, struct_name="Slice"):
    """Verus text of the sliced functions"""
    out_lines = []   # (text, origin_line or None)
    out_lines.append((f"pub struct {struct_name};", None))
    out_lines.append((f"impl {struct_name} {{", None))
    for n in names:
        body = slicer.slice_function(n)
        needs_c = any("entry_c" in t for t, _ in body)
        out_lines.append(("#[verifier::exec_allows_no_decreases_clause]", None))
        out_lines.append(("#[verifier::loop_isolation(false)]", None))
        out_lines.append((f"pub fn {n}_slice(board: &mut Bitboard)", None))
        out_lines.append(("    requires board_wf(pos_of(*old(board)))", None))
        out_lines.append(("    ensures pos_of(*final(board)) == pos_of(*old(board))", None))
        out_lines.append(("{", None))
        out_lines.append(("    let ghost entry = pos_of(*board);", None))
        for t, o in body:
            out_lines.append((t, o))
        out_lines.append(("}", None))
    out_lines.append(("}", None))
    return out_lines


if __name__ == "__main__":
    rel, impl, board = sys.argv[1], sys.argv[2], sys.argv[3]
    names = sys.argv[4:]
    sl = Slicer(rel, impl, names, board)
    try:
        for t, o in render(sl, names):
            print(f"{t}" + (f"    // {rel}:{o}" if o else ""))
        print("// notes:", {k: (sorted(v) if isinstance(v, set) else v) for k, v in sl.notes.items()})
    except ExtractError as e:
        print("SLICE-ERROR:", e)
        sys.exit(2)
