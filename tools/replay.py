"""replay.py — concrete replays of failed obligations against the real crate.

A Verus failure carries no counterexample.  For obligations with a paired *witness probe* (a small test
over the real crate's public API that exercises exactly the behaviour the obligation pins down) the probe
is run on a scratch copy of /repo; if it fails there, its input is the failing input.  Kani failures carry
CBMC's counterexample, which is decoded and re-run the same way (kani_run.py).
Replay is reporting, not deciding.
"""
import json
import os
import re
import subprocess
import sys

sys.path.insert(0, os.path.dirname(os.path.abspath(__file__)))
import scratch  # noqa: E402

VERIF = scratch.VERIF

# obligation regex -> (where, package, witness file under /verif/witness, test name filter)
#   where = "<crate dir>"            : the witness becomes the integration test <crate dir>/tests/verif_<file> (public API only)
#   where = "append:<repo rel path>" : the witness (a #[cfg(test)] module) is appended to that source file (private access)
# entries: (obligation regex, crate dir | append:<file>, package, witness file, test filter[, property]); first match wins;
# an entry with a 6th element applies only when the check runs for that property
WITNESS = [
    (r"search_abort::SearchFragR::", "engine_core", "inkayaku_engine_core", "c10_repetition.rs", "witness_c10", "C10"),
    (r"PerftSlice::", "board", "inkayaku_board", "c01_legal_moves.rs", "witness_c01", "C01"),
    (r"search_horizon::SearchFragB::", "append:engine_core/src/engine/search.rs", "inkayaku_engine_core", "c09_sweep.rs", "verif_witness_c09_interruption", "C09"),
    (r"search_horizon::SearchFragB::", "engine_core", "inkayaku_engine_core", "c10_repetition.rs", "witness_c10", "C10"),
    (r"move_order::", "append:engine_core/src/engine/move_order.rs", "inkayaku_engine_core", "c10_move_order.rs", "verif_witness_move_order"),
    (r"search_abort::SearchFragA::abort_after_child_fragment", "engine_core", "inkayaku_engine_core", "c11_horizon.rs", "witness_c11_horizon", "C05"),
    (r"search_abort::SearchFragA::abort_after_child_fragment", "engine_core", "inkayaku_engine_core", "c11_horizon.rs", "witness_c11_horizon", "C11"),
    (r"search_rep::SearchFrag::repetition_fragment", "engine_core", "inkayaku_engine_core", "c11_repetition_flip.rs", "witness_c11_flip", "C11"),
    (r"uci_moves::Bitboard::san_suffix_fragment", "board", "inkayaku_board", "c05_check_detection.rs", "witness_c05_san"),
    (r"board_make::(Move::|Bitboard::)", "board", "inkayaku_board", "c03_make_unmake.rs", "witness_"),
    (r"Bitboard::(find_uci|make_uci|make_all_uci)", "board", "inkayaku_board", "c13_rejected_move.rs", "witness_find_uci|witness_make_uci"),
    (r"fen_import::", "board", "inkayaku_board", "c01_legal_moves.rs", "witness_c01"),
    (r"movegen::Bitboard::(make_move|make_castle_move)", "board", "inkayaku_board", "c03_make_unmake.rs", "witness_"),
    (r"movegen::", "board", "inkayaku_board", "c01_legal_moves.rs", "witness_c01"),
    (r"uci_moves::Bitboard::(is_move_legal|is_any_move_legal)", "board", "inkayaku_board", "c13_rejected_move.rs", "witness_is_move_legal"),
    (r"uci_moves::Move::", "board", "inkayaku_board", "c03_make_unmake.rs", "witness_"),
    (r"::Bitboard::ply_clock", "engine_core", "inkayaku_engine_core", "c10_repetition.rs", "witness_c10"),
    (r"history::", "engine_core", "inkayaku_engine_core", "c10_repetition.rs", "witness_c10"),
    (r"san_suffix_fragment", "board", "inkayaku_board", "c05_check_detection.rs", "witness_c05_san"),
    (r"uci_to_pgn", "board", "inkayaku_board", "c13_rejected_move.rs", "witness_uci_to_pgn"),
    (r"search_abort::", "append:engine_core/src/engine/search.rs", "inkayaku_engine_core", "c09_sweep.rs", "verif_witness_c09_interruption"),
    (r"SearchSlice::(search_negamax|search_quiescence)_slice", "append:engine_core/src/engine/search.rs", "inkayaku_engine_core", "c09_sweep.rs", "verif_witness_c09_interruption"),
    (r"SearchSlice::", "engine_core", "inkayaku_engine_core", "c09_interrupted_search.rs", "witness_c09"),
    (r"attacks::Bitboard::", "board", "inkayaku_board", "c05_check_detection.rs", "witness_c05"),
    (r"hashtable::", "append:engine_core/src/engine/table.rs", "inkayaku_engine_core", "c18_fifo_map.rs", "verif_witness_c18"),
    (r"search_hash::", "append:engine_core/src/engine/search.rs", "inkayaku_engine_core", "c06_search_threading.rs", "verif_witness_c06"),
    (r"hashes::", "board", "inkayaku_board", "c06_hashes.rs", "witness_c06"),
    (r"eval::", "append:engine_core/src/engine/heuristic/simple.rs", "inkayaku_engine_core", "c11_symmetry.rs", "verif_witness_c11"),
    (r"search_horizon::", "engine_core", "inkayaku_engine_core", "c11_horizon.rs", "witness_c11_horizon"),
    (r"heuristic::(SearchFragE::|calculate_heuristic_factor)", "append:engine_core/src/engine/search.rs", "inkayaku_engine_core", "c11_search_view.rs", "verif_witness_c11_search"),
    (r"heuristic::Heuristic::(score_from_value|is_checkmate|win_score|loss_score|draw_score)", "append:engine_core/src/engine/heuristic/simple.rs", "inkayaku_engine_core", "c11_symmetry.rs", "verif_witness_c11_mate"),
    (r"search_rep::", "engine_core", "inkayaku_engine_core", "c10_repetition.rs", "witness_c10"),
    (r"lemma_shipped_thresholds|Heuristic::evaluate", "append:engine_core/src/engine/heuristic/simple.rs", "inkayaku_engine_core", "c10_fifty_move.rs", "verif_witness_c10"),
]


def find_witness(obligation, prop=None):
    for ent in WITNESS:
        rx, crate, pkg, fname, flt = ent[:5]
        if len(ent) > 5 and ent[5] != prop:
            continue
        if re.search(rx, obligation):
            return crate, pkg, fname, flt
    return None


_WITNESS_CACHE = {}


def run_witness(crate, pkg, fname, flt, timeout=1500):
    key = (crate, pkg, fname, flt, os.environ.get("VERIF_REPO", "/repo"))
    if key not in _WITNESS_CACHE:
        _WITNESS_CACHE[key] = _run_witness(crate, pkg, fname, flt, timeout)
    return _WITNESS_CACHE[key]


def _run_witness(crate, pkg, fname, flt, timeout=1500):
    src = open(os.path.join(VERIF, "witness", fname)).read()
    with scratch.Scratch("replay") as s:
        if crate.startswith("append:"):
            s.write(crate[len("append:"):], "\n" + src, append=True)
            cmd = ["cargo", "test", "--offline", "-p", pkg, "--lib", "--"] + flt.split("|") + ["--test-threads", "4"]
        else:
            s.write(f"{crate}/tests/verif_{fname}", src)
            cmd = ["cargo", "test", "--offline", "-p", pkg, "--test", "verif_" + fname[:-3], "--"] + flt.split("|") + ["--test-threads", "4"]
        with scratch.cargo_lock("target-replay"):
            p = subprocess.run(cmd, cwd=s.repo, env=scratch.cargo_env("target-replay"), capture_output=True, text=True, timeout=timeout)
    out = p.stdout[-9000:] + "\n--- stderr (tail) ---\n" + p.stderr[-1500:]
    return p.returncode, out, " ".join(cmd)


def build_replay(prop, v, path):
    """write the replay file; return True iff a failing input was found and reproduced on the real code"""
    rep = {"property": prop, "obligation": v["obligation"], "backend": v.get("backend"), "message": v.get("message"),
           "origin": v.get("origin"), "verifier_output": v.get("verifier_output"), "failing_input_found": False}
    found = False
    if v.get("counterexample"):
        rep["counterexample"] = v["counterexample"]
        rep["counterexample_replay"] = v.get("counterexample_replay")
        found = bool(v.get("counterexample_reproduced"))
    if not found:
        w = find_witness(v["obligation"], prop)
        if w:
            try:
                rc, out, cmd = run_witness(*w)
                rep["witness"] = {"file": "witness/" + w[2], "cmd": cmd, "exit": rc, "output": out}
                fails = re.findall(r"test (\S+) \.\.\. FAILED", out) or re.findall(r"---- (\S+) stdout ----", out)
                if rc != 0 and ("test result: FAILED" in out or "FAILING-INPUT:" in out):
                    found = True
                    rep["witness"]["failing_tests"] = sorted(set(fails))
                    m = re.findall(r"FAILING-INPUT: (.*)", out)
                    rep["failing_inputs"] = m[:20]
            except Exception as e:  # replay is reporting only
                rep["witness_error"] = str(e)
    rep["failing_input_found"] = found
    json.dump(rep, open(path, "w"), indent=1)
    return found


def replay_file(path):
    rep = json.load(open(path))
    print(f"replay of {rep['obligation']} (property {rep['property']})")
    print(rep.get("verifier_output", ""))
    if rep.get("counterexample") and rep["obligation"].startswith("kani::"):
        import kani_run
        _, set_name, harness = rep["obligation"].split("::")
        r = kani_run.native_replay(set_name, harness, rep["counterexample"]["byte_vectors"])
        print(r["output"][-3000:])
        if r["reproduced"]:
            print(f"VIOLATION property={rep['property']} replay={path} (counterexample {rep['counterexample'].get('rendered')} reproduces on the real code)")
            return 1
        print("the recorded counterexample no longer fails on the current tree")
        return 0
    w = find_witness(rep["obligation"], rep.get("property"))
    if w:
        rc, out, cmd = run_witness(*w)
        print(out[-3000:])
        if rc != 0:
            print(f"VIOLATION property={rep['property']} replay={path} (witness probe fails on the real code)")
            return 1
        print("witness probe passes on the current tree")
        return 0
    print("no concrete replay available for this obligation: no-failing-input-found")
    return 1 if not rep.get("failing_input_found") else 0
