#!/usr/bin/env python3
"""spec2rust.py — emit the loop-free predicates of spec/*.rs (Verus `pub open spec fn`) as plain Rust `fn`s.

One contract text, two back ends (DESIGN §1.2): the very text Verus uses as `spec fn` is compiled as executable Rust
inside a Kani harness, so that lemmas which are pure bit-vector facts about the rules (e.g. "rules_succ preserves
board_wf") are discharged by CBMC/SAT over the full input domain and then assumed, by name, on the Verus side.

Translation (token level, strict — anything else raises):
  pub open spec fn f(..) -> T { e }   ->  pub fn f(..) -> T { e' }
  &&& a &&& b / ||| a ||| b           ->  (a') && (b') / (a') || (b')
  a ==> b                             ->  (!(a') || (b'))          (right associative, lower than ||)
  a <==> b                            ->  ((a') == (b'))
  pub struct S { .. }                 ->  #[derive(Clone, Copy, PartialEq, Eq)] pub struct S { .. }
Functions mentioning types outside the common subset (Seq, Map, int, nat, forall, exists, PlayerState, Bitboard)
are skipped and listed.  Spec ints are mathematical; the executable twins use machine integers — every arithmetic
sub-expression of the translated functions is checked for overflow by Kani itself, so a divergence would surface
as a failed harness, not as an unsound pass.
"""
import os
import re
import sys

sys.path.insert(0, os.path.dirname(os.path.abspath(__file__)))
import extract  # noqa: E402

SKIP_WORDS = {"Seq", "Map", "Set", "nat", "PlayerState", "Bitboard", "choose", "decreases", "uninterp", "spec_fn"}


class TranslateError(Exception):
    pass


def toks_text(src, lo, hi):
    return src.text[src.toks[lo].s:src.toks[hi - 1].e] if hi > lo else ""


def is_seq(src, i, chars):
    """tokens i.. spell `chars` as adjacent single-char puncts"""
    for k, ch in enumerate(chars):
        j = i + k
        if j >= len(src.toks) or not src.is_p(j, ch):
            return False
        if k > 0 and src.toks[j].s != src.toks[j - 1].e:
            return False
    return True


def translate_range(src, lo, hi):
    """translate token range [lo,hi) (contents of a group or a whole body) to Rust text"""
    # 1. split into statements at top-level ';'
    parts = []
    cur = lo
    k = lo
    while k < hi:
        t = src.toks[k]
        if t.kind == "p" and src.text[t.s] in "([{":
            k = src.match[k] + 1
            continue
        if src.is_p(k, ";"):
            parts.append((cur, k, ";"))
            cur = k + 1
        k += 1
    parts.append((cur, hi, ""))
    out = []
    for (a, b, term) in parts:
        out.append(translate_stmt(src, a, b) + term)
    return " ".join(out)


def translate_stmt(src, lo, hi):
    i = src.sig(lo, hi)
    if i >= hi:
        return ""
    if src.toks[i].kind == "id" and src.tt(i) == "let":
        # let PAT = EXPR
        k = i
        while k < hi and not (src.is_p(k, "=") and not src.is_p(k + 1, "=") and not src.is_p(k - 1, "=") and not src.is_p(k - 1, "<") and not src.is_p(k - 1, ">") and not src.is_p(k - 1, "!")):
            if src.toks[k].kind == "p" and src.text[src.toks[k].s] in "([{":
                k = src.match[k]
            k += 1
        if k >= hi:
            raise TranslateError("let without =")
        return toks_text(src, i, k) + " = " + translate_expr(src, k + 1, hi)
    return translate_expr(src, lo, hi)


def split_top(src, lo, hi, seq):
    """split [lo,hi) at top-level occurrences of the punct sequence `seq`; returns list of (a,b)"""
    res = []
    cur = lo
    k = lo
    n = len(seq)
    while k < hi:
        t = src.toks[k]
        if t.kind == "p" and src.text[t.s] in "([{":
            k = src.match[k] + 1
            continue
        if t.kind == "id" and src.text[t.s:t.e] in ("forall", "exists"):
            break   # a quantifier body extends to the end of the enclosing range
        if is_seq(src, k, seq) and k + n <= hi:
            # make sure `==>` is not part of `<==>` when looking for `==>` and vice versa
            if seq == "==>" and k > lo and src.is_p(k - 1, "<") and src.toks[k - 1].e == src.toks[k].s:
                k += 1
                continue
            res.append((cur, k))
            cur = k + n
            k += n
            continue
        k += 1
    res.append((cur, hi))
    return res


def translate_expr(src, lo, hi):
    lo = src.sig(lo, hi)
    while hi > lo and src.toks[hi - 1].kind in ("ws", "lc", "bc"):
        hi -= 1
    if lo >= hi:
        return ""
    # bounded quantifiers: forall|x: u32| x < 64 && A ==> B  /  exists|x: u32| x < 64 && A   -> loops over 0..64
    if src.toks[lo].kind == "id" and src.tt(lo) in ("forall", "exists"):
        q = src.tt(lo)
        k = src.sig(lo + 1, hi)
        if not src.is_p(k, "|"):
            raise TranslateError("quantifier syntax")
        e = k + 1
        while e < hi and not src.is_p(e, "|"):
            e += 1
        params = src.text[src.toks[k].e:src.toks[e].s]
        names = []
        for prm in params.split(","):
            nm, ty = [x.strip() for x in prm.split(":")]
            if ty != "u32":
                raise TranslateError("only u32-bounded quantifiers are translated")
            names.append(nm)
        body_txt = src.text[src.toks[e].e:src.toks[hi - 1].e]
        for nm in names:
            if not re.search(r"\b" + nm + r"\s*<\s*64\b", body_txt):
                raise TranslateError(f"quantified variable {nm} has no `< 64` guard")
        body = translate_expr(src, e + 1, hi)
        out = body
        for nm in reversed(names):
            out = f"(0u32..64).{'all' if q == 'forall' else 'any'}(|{nm}| {out})"
        return out
    # bullets
    for bullet, op in (("&&&", "&&"), ("|||", "||")):
        if is_seq(src, lo, bullet):
            segs = split_top(src, lo, hi, bullet)
            segs = [s for s in segs if src.sig(s[0], s[1]) < s[1]]
            return "(" + f" {op} ".join("(" + translate_expr(src, a, b) + ")" for a, b in segs) + ")"
    segs = split_top(src, lo, hi, "<==>")
    if len(segs) > 1:
        if len(segs) != 2:
            raise TranslateError("chained <==>")
        return "((" + translate_expr(src, *segs[0]) + ") == (" + translate_expr(src, *segs[1]) + "))"
    segs = split_top(src, lo, hi, "==>")
    if len(segs) > 1:
        # right associative
        acc = "(" + translate_expr(src, *segs[-1]) + ")"
        for a, b in reversed(segs[:-1]):
            acc = "(!(" + translate_expr(src, a, b) + ") || " + acc + ")"
        return acc
    # plain: copy tokens, recursing into groups
    out = []
    k = lo
    while k < hi:
        t = src.toks[k]
        if t.kind == "p" and src.text[t.s] in "([{":
            m = src.match[k]
            out.append(src.text[t.s] + " " + translate_range(src, k + 1, m) + " " + src.text[src.toks[m].s])
            k = m + 1
            continue
        if t.kind in ("lc", "bc"):
            k += 1
            continue
        if t.kind == "id" and src.tt(k) in ("forall", "exists") and k > lo:
            out.append(" " + translate_expr(src, k, hi))
            break
        if t.kind == "id" and src.tt(k) in SKIP_WORDS:
            raise TranslateError("unsupported word " + src.tt(k))
        if src.is_p(k, "#") and k + 1 < hi and src.is_p(k + 1, "["):
            k = src.match[k + 1] + 1      # #[trigger] and friends
            continue
        if t.kind == "id" and src.tt(k) == "int":
            out.append("i64")
        else:
            out.append(src.text[t.s:t.e])
        k += 1
    return "".join(out)


def translate_files(paths, skip_fns=()):
    """returns (rust_text, translated_names, skipped_names)"""
    out, done, skipped = [], [], []
    for path in paths:
        text = open(path).read()
        src = extract.Source(text, path)
        items = extract.parse_items(src, 0, len(src.toks))
        for it in items:
            if it.kind == "struct":
                out.append("#[derive(Clone, Copy, PartialEq, Eq, Debug)]\n" + it.text())
                continue
            if it.kind != "fn":
                continue
            head = src.text[src.toks[it.core].s:src.toks[it.kw].s]
            if "spec" not in head or it.body_open is None:
                continue  # proof fns, uninterp
            if it.name in skip_fns:
                skipped.append(it.name)
                continue
            sig = src.text[src.toks[it.kw].s:src.toks[it.body_open].s]
            sig = re.sub(r"\bint\b", "i64", sig)
            if any(re.search(r"\b" + w + r"\b", sig) for w in SKIP_WORDS) or re.search(r"\b(recommends|decreases)\b", sig):
                skipped.append(it.name)
                continue
            try:
                body = translate_range(src, it.body_open + 1, src.match[it.body_open])
            except TranslateError as e:
                skipped.append(f"{it.name} ({e})")
                continue
            out.append(f"#[allow(unused_parens, unused_braces, dead_code)]\npub {sig.strip()} {{ {body} }}")
            done.append(it.name)
    return "\n".join(out) + "\n", done, skipped


if __name__ == "__main__":
    t, d, s = translate_files(sys.argv[1:])
    print(t)
    print("// translated:", d, file=sys.stderr)
    print("// skipped:", s, file=sys.stderr)
